# sourced by setup.sh / run.sh: resolves the Go toolchain explicitly (see DESIGN.md 2.2)
export GOFLAGS=-mod=mod GOPROXY=off GOTOOLCHAIN=local
GOMODCACHE="${GOMODCACHE:-/root/go/pkg/mod}"
[ -d "$GOMODCACHE" ] || GOMODCACHE="$(go env GOMODCACHE 2>/dev/null)"
export GOMODCACHE
VGO="$GOMODCACHE/golang.org/toolchain@v0.0.1-go1.24.0.linux-amd64/bin/go"
if [ ! -x "$VGO" ]; then
  VGO="$(command -v go1.26 || command -v go1.26.8 || command -v go)"
fi
export VGO
export VERIF_ROOT="$(cd "$(dirname "${BASH_SOURCE[0]}")" && pwd)"
