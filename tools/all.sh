#!/bin/bash
# usage: tools/all.sh <quick|thorough> [ids...]   -- runs checks sequentially, prints one status line each
tier=${1:-quick}; shift
ids=("$@")
if [ ${#ids[@]} -eq 0 ]; then ids=(C01 C02 C03 C04 C05 C06 C07 C08 C09 C10 C11 C12 C13 C14 C15 C16 C17 C18 C19 C20); fi
cd "$(dirname "$0")/.."
for id in "${ids[@]}"; do
  s=$(date +%s)
  out=$(./run.sh "$id" "$tier" 2>&1); rc=$?
  e=$(date +%s)
  echo "== $id $tier rc=$rc $((e-s))s :: $(echo "$out" | tail -1)"
  if [ $rc -ne 0 ]; then echo "$out" | tail -15; fi
done
