#!/usr/bin/env python3
"""Regenerates the table of seeded changes in DESIGN.md (between the SEEDTABLE markers) from seeded/*/meta.json."""
import json, glob, os, re
root = os.path.dirname(os.path.dirname(os.path.abspath(__file__)))
rows = []
for f in sorted(glob.glob(os.path.join(root, "seeded", "*", "meta.json"))):
    m = json.load(open(f))
    esc = lambda t: t.replace("|", "\\|").replace("\n", " ")
    rows.append("| %s | %s | %s | %s | %s |" % (m["id"], m["property"], esc(m["breaks"]), esc(m["needs_to_manifest"]), esc(m["detection"])))
table = "| seed | property | change | needs to manifest | detection |\n|---|---|---|---|---|\n" + "\n".join(rows) + "\n"
p = os.path.join(root, "DESIGN.md")
s = open(p).read()
a, b = s.index("<!-- SEEDTABLE BEGIN -->"), s.index("<!-- SEEDTABLE END -->")
s = s[:a] + "<!-- SEEDTABLE BEGIN -->\n" + table + s[b:]
open(p, "w").write(s)
print("rows:", len(rows))
