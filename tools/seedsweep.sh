#!/bin/bash
# usage: tools/seedsweep.sh [tier] [seed ids...] -- runs every stored seeded change against the check of its
# property (scratch worktree, VERIF_REPO/VERIF_OUT) and prints DETECTED / MISSED per seed.
tier=${1:-quick}; shift
cd "$(dirname "$0")/.."
ids=("$@")
if [ ${#ids[@]} -eq 0 ]; then ids=($(ls seeded)); fi
for sid in "${ids[@]}"; do
  prop=$(python3 -c "import json;m=json.load(open('seeded/$sid/meta.json'));print(m.get('detect_with',m['property']))")
  out=$(SEED_SUITE=0 SEED_DEMO=0 tools/seedtest.sh seeded/$sid $tier $prop 2>&1 | grep "^check")
  if echo "$out" | grep -q "rc=1 violations=[1-9]"; then echo "DETECTED $sid by $(echo "$out" | grep 'rc=1' | awk '{print $2}' | tr '\n' ' ')"; else echo "MISSED   $sid :: $out"; fi
done
