#!/usr/bin/env python3
"""Writes /verif/MANIFEST.json from the table below (kept in one place so it stays valid)."""
import json, os, subprocess

ROOT = os.path.dirname(os.path.dirname(os.path.abspath(__file__)))

def repo_commits(prefix):
    out = subprocess.run(["git", "-C", "/repo", "log", "--format=%H %s"], capture_output=True, text=True).stdout
    return [l.split()[0] for l in out.splitlines() if l.split(" ", 1)[1].startswith(prefix)]

CHECKS = {
 "C01": dict(tech="reference-model monitor (M-LEX position-set NFA) over Scan() results of compiled generated lexers",
   text="Exploration: random lexical grammars are run through the real gocc, the generated lexer is compiled and its Scan() results on hostile inputs are compared token by token (type, literal, count, sticky EOF) with an independent macro-expanding NFA simulation. Held on the executions produced, nothing more.",
   note="Trusts M-LEX as a reading of the statement; regular definitions acyclic; grammars of bounded size.", ref="4/C01"),
 "C08": dict(tech="reference-model monitor (M-POS recomputation from raw bytes + tiling check) over Scan() results",
   text="Exploration: every token (incl. INVALID and EOF) returned by compiled generated lexers on position-hostile inputs is checked against offsets/lines/columns recomputed from the raw input, literal == input slice, no overlap, and exact tiling by tokens plus ignored lexemes.",
   note="Trusts M-POS/M-LEX; same generator domain as C01.", ref="4/C08"),
 "C02": dict(tech="reference-model monitor (M-EARLEY membership) over Parse() verdicts of compiled generated parsers",
   text="Exploration: grammars that gocc generates without announcing conflicts are compiled and Parse() is driven by token name over all short strings, random sentences, prefix+terminal probes and mutants; nil-error iff Earley membership; termination via an event budget on Scan/action calls (a wall-clock watchdog alone is inconclusive).",
   note="Trusts M-EARLEY (cross-checked against M-LR1 on every conflict-free grammar of the run); small grammars; plain and -zip tables alternate.", ref="4/C02"),
 "C03": dict(tech="offline monitor over recorded event logs (scans, action calls with argument identities) vs post-order evaluation by M-LR1",
   text="Exploration: every action of a harness grammar is a recorder call; the log of scans, calls (production, argument identities incl. pointer identity of tokens), result, and of injected action failures is compared with the post-order evaluation of the reference parse; the Context field is replaced while Parse runs (an action handed a stale value logs it) and every failing-action case is followed by the same input on the same parser.",
   note="Trusts M-LR1's derivation for unambiguous grammars; identities observed at the API boundary only.", ref="4/C03"),
 "C05": dict(tech="reference-model monitor (canonical LR(1) resolved by the stated rule) over verdict and reduction logs of -a parsers",
   text="Exploration: conflicting grammars are generated with -a, compiled and driven; verdict and full reduction sequence are compared with the canonical LR(1) machine resolved by 'shift, else earliest production'; coverage of conflicting (state, terminal) entries is measured.",
   note="State numbering is never compared; on inputs where the resolved machine provably diverges (reduction cycle mandated by the rule) the parser must exhaust its event budget with the same reductions.", ref="4/C05"),
 "C06": dict(tech="reference-model monitor (M-EARLEY viable-prefix and follow sets) over *errors.Error values and event logs",
   text="Exploration: on non-sentences of conflict-free, error-free, productive grammars the returned error's token identity/type/literal/position, the exact expected set (as a set) and the absence of action calls after the offending token are judged against Earley.",
   note="Viable prefix = non-empty Earley set, valid because all nonterminals are productive.", ref="4/C06"),
 "C07": dict(tech="reference-model monitor (M-LR1 + recovery rule of the statement) over full event logs incl. error attributes; token-conservation check",
   text="Exploration: grammars with error-first alternatives (clean and -a) are driven with valid, singly and multiply erroneous inputs; log (scans, calls, error attributes with offending token and discarded attributes, result/error) must equal the reference; no panic, no budget abort; inputs valid for the grammar without error alternatives must parse without any error attribute.",
   note="ExpectedTokens of recovered errors is not judged (unstated).", ref="4/C07"),
 "C04": dict(tech="reference-model monitor (M-LR1 classification) over exit status and conflict line of real gocc runs",
   text="Exploration: random, template and near-boundary grammars are run through the real gocc with and without -a; exit status and the presence of the 'LR-1 conflicts' line must match the canonical LR(1) classification (conflict-free / conflicting / accept-reduce) built independently.",
   note="The conflict count N is recorded, not judged; 'error' is treated as an ordinary terminal.", ref="4/C04"),
 "C11": dict(tech="repeated-execution monitor: sha256 of generated files, exit status and conflict line over K fresh gocc processes per (grammar, flags), GOMAXPROCS varied",
   text="Exploration: each (grammar, flag set) is generated K times by fresh processes (fresh map-iteration seeds) into the same directory; all generated .go files, exit status and conflict line must be identical.",
   note="gocc starts no goroutines: schedule nondeterminism reduces to map-order draws and GOMAXPROCS.", ref="4/C11"),
 "C13": dict(tech="differential monitor over generated bytes for two renderings of one grammar IR (layout, literal spelling, quoting)",
   text="Exploration: one IR is rendered canonically and with random layout / literal spellings / quoting, both are generated into identically named directories with the same package path; outputs must be byte-identical.",
   note="The renderer varies only what C13 lists; action text and header untouched.", ref="4/C13"),
 "C14": dict(tech="reference-model monitor (M-SPEC = spec/gocc2.ebnf via own reader + Earley) over gocc exit status on token-level and semantic mutants",
   text="Exploration: well-formed grammars are mutated at the front-end token level and by the listed semantic faults; every mutant that is not a sentence of the documented grammar, or carries a listed fault, must make gocc exit non-zero.",
   note="Token types as the scanner assigns them; still-well-formed mutants are run but not judged.", ref="4/C14"),
 "C19": dict(tech="differential monitor (x.md vs extracted x.bnf bytes) plus diagnostic-position oracle computed by the generator",
   text="Exploration: grammars are laid out in fenced blocks between hostile prose; generated bytes must equal those for the extracted fenced text, and an injected stray token must be diagnosed at its line:column in the .md file.",
   note="Fences on their own lines or inline with prose glued to them, valid UTF-8, no ``` inside prose or code (the property's stated domain).", ref="4/C19"),
 "C15": dict(tech="in-process monitor: shipped front-end tables + shipped Parse loop with recording reduce stubs vs M-SPEC (Earley membership, M-LR1 derivation)",
   text="Exploration, exhaustive within a bound: every token sequence up to 4 (quick) / 5 (thorough) tokens over the 21-token alphabet, plus random sentences, mutants and bracket nestings that drive the parse stack to depth 1000; acceptance must equal membership in spec/gocc2.ebnf and each reduction must be the spec production with the same head and body.",
   note="Spec read by the harness's own reader; AST-level semantic checks excluded (C14).", ref="4/C15"),
 "C18": dict(tech="in-process invariant monitor on DisjunctRangeSet (exhaustive small sequences + random) + in-situ hook in every gocc run + read-back of generated case ranges",
   text="Exploration, exhaustive within a bound: all AddRange sequences of up to 3/4 intervals over 6/7 consecutive points at both ends of the rune range, random sequences of up to 12 intervals, the Classes hook on every lexer state of random grammars inside the real gocc, and the case ranges of generated transitiontable.go; oracle: sorted, disjoint, non-empty, exact union, every added interval a union of classes.",
   note="Oracle implemented twice (probe, hook).", ref="4/C18"),
 "C20": dict(tech="in-process differential monitor against strconv over every valid code point and spelling; read-back of literals through a real gocc run",
   text="Exploration (thorough: exhaustive over all valid code points x all covered spellings): generated util.RuneValue and gocc's own LitToRune against strconv.UnquoteChar; IntValue/UintValue against strconv.ParseInt/ParseUint on boundary and random decimal strings; literals pushed through gocc and read back from the generated transition table.",
   note="strconv defines Go's literal semantics.", ref="4/C20"),
 "C09": dict(tech="step-counter hooks + CPU rlimit (bounded-progress termination), file-set completeness check, batch go build of everything that exited 0, strace fault injection",
   text="Exploration + fault enumeration: hostile well-formed grammars, byte/token mutants, random flag combinations (incl. -o/-p forms) and deeply nested nullable patterns run through the real gocc under a step budget on every instrumented loop; exit 0 must mean all required packages written, non-empty and compilable, also when the output directory already holds an earlier, larger generation; the N-th write/openat/mkdirat is failed with strace for every N and a run that still exits 0 must have produced the fault-free output.",
   note="Termination restated as bounded progress on size-bounded inputs; wall-clock watchdog alone is inconclusive.", ref="4/C09"),
 "C10": dict(tech="invariant monitor over the compiled token package (Id/Type tables), lexer return types and by-name vs through-lexer parse logs",
   text="Exploration: grammars in lexer-only, -no_lexer and combined modes with hostile terminal spellings; INVALID=0, end-of-input=1, remaining terminals distinct/consecutive, Id and Type mutually inverse, unknown names map to INVALID, the lexer returns and the parser consumes exactly these numbers.",
   note="Pseudo symbols empty/error tolerated as extra names; reserved spellings excluded (finding F9).", ref="4/C10"),
 "C12": dict(tech="differential monitor across flag variants: decoded tables dumped entry by entry, parse observations, token streams and positions vs the flag-less variant",
   text="Exploration: for each grammar the flag-less variant and variants with subsets of the five presentation flags are compiled and driven with the same inputs; all observations and the decoded tables must be equal; -no_lexer must only remove the lexer package.",
   note="A dump function is added to the scratch copy of package parser to read the decoded tables; debug output on stdout ignored.", ref="4/C12"),
 "C16": dict(tech="history monitor: observations of every call on a reused Parser / reset Lexer vs a fresh object on the same input",
   text="Exploration: histories of 2-6 Parse calls (valid, failing, recovering, action-error; by name or through the lexer) on one Parser, and scan-k-then-Reset on lexers; each call's complete observation must equal a fresh object's.",
   note="Fresh-object behaviour is the oracle (judged itself by C01-C08).", ref="4/C16"),
 "C17": dict(tech="Go race detector (-race build, GORACE log counted and de-duplicated) + per-goroutine observation equality against a sequential pass",
   text="Exploration of schedules: 16/32 goroutines released by a barrier, each with its own lexer/parser/recorder, run all inputs in different orders several times on plain and -zip parsers incl. error rendering, lexers built by NewLexer and by NewLexerFile; zero race reports and all observations equal to the sequential ones; measured overlap reported (<2 is inconclusive).",
   note="The race detector only sees accesses the workload performs; monitor state is goroutine-local.", ref="4/C17"),
}

NOT_YET = "check not built yet in this tree (work in progress; see DESIGN.md section 4 for the planned monitor)"

def main():
    props = [json.loads(l) for l in open(os.path.join(ROOT, "properties.jsonl"))]
    checks, na = [], []
    for p in props:
        pid = p["id"]
        if pid in CHECKS:
            c = CHECKS[pid]
            checks.append({
                "property_id": pid,
                "quick_cmd": f"./run.sh {pid} quick",
                "thorough_cmd": f"./run.sh {pid} thorough",
                "evidence_file": f"/verif/evidence/{pid}.json",
                "replay_cmd_template": f"./run.sh {pid} quick --replay {{path}}",
                "engine": "vcheck",
                "level_claimed": {"category": "exploration", "text": c["text"], "design_ref": c["ref"]},
                "level_note": c["note"],
                "technique": c["tech"],
            })
        else:
            na.append({"property_id": pid, "reason": NOT_YET})
    m = {
        "version": 1,
        "setup_cmd": "./setup.sh",
        "hooks": {
            "guard": "verif",
            "enable": "go build -tags verif (run.sh builds /repo's working tree with the tag on for every check)",
            "baseline_off_cmd": "cd /repo && GOFLAGS=-mod=mod GOPROXY=off go test -json -vet=off -count=1 -timeout 25m ./...",
            "source_commits": repo_commits("verif hooks"),
            "add_only": True,
        },
        "engines": [{"name": "vcheck", "path": "/verif/cmd/vcheck", "serves_properties": sorted(CHECKS.keys()),
                     "kind_free_text": "Go orchestrator: generators, reference models, real-gocc runner, batch compile+drive of generated code, offline monitors over event logs"}],
        "checks": checks,
        "not_applicable": na,
        "notes": "Runtime monitoring only: every verdict comes from observing executions of the real gocc binary (built from /repo's working tree with -tags verif) and of the Go packages it generates. Exit 2 + INCONCLUSIVE is used when a run could not observe enough; it never prints VIOLATION.",
    }
    json.dump(m, open(os.path.join(ROOT, "MANIFEST.json"), "w"), indent=1)
    print("wrote MANIFEST.json:", len(checks), "checks,", len(na), "not applicable")

if __name__ == "__main__":
    main()
