#!/usr/bin/env python3
"""Writes /verif/MANIFEST.json from the table below (kept in one place so it stays valid)."""
import json, os, subprocess

ROOT = os.path.dirname(os.path.dirname(os.path.abspath(__file__)))

def repo_commits(prefix):
    out = subprocess.run(["git", "-C", "/repo", "log", "--format=%H %s"], capture_output=True, text=True).stdout
    return [l.split()[0] for l in out.splitlines() if l.split(" ", 1)[1].startswith(prefix)]

CHECKS = {
 "C01": dict(tech="reference-model monitor (M-LEX position-set NFA) over Scan() results of compiled generated lexers",
   text="Exploration: random lexical grammars are run through the real gocc, the generated lexer is compiled and its Scan() results on hostile inputs are compared token by token (type, literal, count, sticky EOF) with an independent macro-expanding NFA simulation. Held on the executions produced, nothing more.",
   note="Trusts M-LEX as a reading of the statement; regular definitions restricted to shapes S1/S2 (known finding F3); grammars of bounded size.", ref="4/C01"),
 "C08": dict(tech="reference-model monitor (M-POS recomputation from raw bytes + tiling check) over Scan() results",
   text="Exploration: every token (incl. INVALID and EOF) returned by compiled generated lexers on position-hostile inputs is checked against offsets/lines/columns recomputed from the raw input, literal == input slice, no overlap, and exact tiling by tokens plus ignored lexemes.",
   note="Trusts M-POS/M-LEX; same generator domain as C01.", ref="4/C08"),
}

NOT_YET = "check not built yet in this tree (work in progress; see DESIGN.md section 4 for the planned monitor)"

def main():
    props = [json.loads(l) for l in open(os.path.join(ROOT, "properties.jsonl"))]
    checks, na = [], []
    for p in props:
        pid = p["id"]
        if pid in CHECKS:
            c = CHECKS[pid]
            checks.append({
                "property_id": pid,
                "quick_cmd": f"./run.sh {pid} quick",
                "thorough_cmd": f"./run.sh {pid} thorough",
                "evidence_file": f"/verif/evidence/{pid}.json",
                "replay_cmd_template": f"./run.sh {pid} quick --replay {{path}}",
                "engine": "vcheck",
                "level_claimed": {"category": "exploration", "text": c["text"], "design_ref": c["ref"]},
                "level_note": c["note"],
                "technique": c["tech"],
            })
        else:
            na.append({"property_id": pid, "reason": NOT_YET})
    m = {
        "version": 1,
        "setup_cmd": "./setup.sh",
        "hooks": {
            "guard": "verif",
            "enable": "go build -tags verif (run.sh builds /repo's working tree with the tag on for every check)",
            "baseline_off_cmd": "cd /repo && GOFLAGS=-mod=mod GOPROXY=off go test -json -vet=off -count=1 -timeout 25m ./...",
            "source_commits": repo_commits("verif hooks"),
            "add_only": True,
        },
        "engines": [{"name": "vcheck", "path": "/verif/cmd/vcheck", "serves_properties": sorted(CHECKS.keys()),
                     "kind_free_text": "Go orchestrator: generators, reference models, real-gocc runner, batch compile+drive of generated code, offline monitors over event logs"}],
        "checks": checks,
        "not_applicable": na,
        "notes": "Runtime monitoring only: every verdict comes from observing executions of the real gocc binary (built from /repo's working tree with -tags verif) and of the Go packages it generates. Exit 2 + INCONCLUSIVE is used when a run could not observe enough; it never prints VIOLATION.",
    }
    json.dump(m, open(os.path.join(ROOT, "MANIFEST.json"), "w"), indent=1)
    print("wrote MANIFEST.json:", len(checks), "checks,", len(na), "not applicable")

if __name__ == "__main__":
    main()
