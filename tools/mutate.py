#!/usr/bin/env python3
"""Systematic one-line mutations of gocc's sources, judged by the checks anchored to the file.

usage: tools/mutate.py <n_mutants> <seed> <workers> [file-filter-substring]

For each mutant: a scratch worktree of /repo HEAD (under /tmp/mut, removed afterwards) gets a
one-token change in one anchored source file; mutants that do not build or that the pinned suite
kills are discarded; the others are handed to the quick checks of the properties anchored to
that file (VERIF_REPO / VERIF_OUT redirect the checks; /repo itself is never touched).
Results: /tmp/mut/results.jsonl (one line per mutant). Survivors need a human look: many are
equivalent (dead code, performance-only conditions); the rest are gaps.
"""
import json, os, random, re, subprocess, sys, collections, concurrent.futures, shutil, hashlib

VERIF = os.path.dirname(os.path.dirname(os.path.abspath(__file__)))
REPO = "/repo"
OUT = "/tmp/mut"
ENV = dict(os.environ, GOFLAGS="-mod=mod", GOPROXY="off", GOTOOLCHAIN="local", GOSUMDB="off")
VGO = "/root/go/pkg/mod/golang.org/toolchain@v0.0.1-go1.24.0.linux-amd64/bin/go"
ENV["VGO"] = VGO

SKIP_FILES = {"gen.sh", "spec/gocc2.ebnf", "internal/frontend/parser/tables.go", "internal/frontend/token/tokens.go"}

OPS = [
    (r"(?<![<>=!])<=(?!=)", "<"), (r"(?<![<>=!-])<(?![<=-])", "<="),
    (r"(?<![<>=!-])>=(?!=)", ">"), (r"(?<![<>=!-])>(?![>=])", ">="),
    (r"==", "!="), (r"!=", "=="),
    (r"&&", "||"), (r"\|\|", "&&"),
    (r"\+ 1\b", "+ 0"), (r"- 1\b", "- 0"), (r"\+1\b", "+0"), (r"-1\b", "-0"),
    (r"\breturn true\b", "return false"), (r"\breturn false\b", "return true"),
    (r"\bbreak\b", "continue"), (r"\bcontinue\b", "break"),
    (r"\+\+", "--"),
    (r"\[1:\]", "[0:]"), (r"\[:len\((\w+)\)-1\]", r"[:len(\1)]"),
    (r"\bi \+ 1\b", "i"), (r"\b0\b", "1"), (r"\b1\b", "2"),
]


def anchored():
    m = collections.defaultdict(list)
    for l in open(os.path.join(VERIF, "properties.jsonl")):
        p = json.loads(l)
        for f in p["anchors"]["files"]:
            if f not in SKIP_FILES and f.endswith(".go"):
                m[f].append(p["id"])
    return m


def candidates(path, text):
    out = []
    in_block = False
    for ln, line in enumerate(text.split("\n")):
        s = line.strip()
        if in_block:
            if "*/" in s:
                in_block = False
            continue
        if s.startswith("/*"):
            if "*/" not in s:
                in_block = True
            continue
        if s.startswith("//") or s.startswith("import") or s.startswith("package") or not s:
            continue
        code = line.split("//")[0] if '"' not in line and "`" not in line and "'" not in line else line
        for oi, (pat, rep) in enumerate(OPS):
            for mt in re.finditer(pat, code):
                out.append((ln, mt.start(), mt.end(), oi))
    return out


def run(cmd, cwd=None, env=None, timeout=3600):
    try:
        p = subprocess.run(cmd, cwd=cwd, env=env or ENV, stdout=subprocess.PIPE, stderr=subprocess.STDOUT, timeout=timeout, text=True, shell=isinstance(cmd, str))
        return p.returncode, p.stdout
    except subprocess.TimeoutExpired as e:
        return 124, (e.stdout or "") if isinstance(e.stdout, str) else ""


def one(job):
    idx, f, ln, a, b, oi, props = job
    wt = f"{OUT}/w{idx}"
    out = f"{OUT}/o{idx}"
    res = {"idx": idx, "file": f, "line": ln + 1, "op": OPS[oi][0] + " -> " + OPS[oi][1], "props": props}
    run(["git", "-C", REPO, "worktree", "remove", "--force", wt])
    rc, o = run(["git", "-C", REPO, "worktree", "add", "-q", "--detach", wt, "HEAD"])
    if rc != 0:
        res["status"] = "worktree-failed: " + o[-200:]
        return res
    try:
        p = os.path.join(wt, f)
        lines = open(p).read().split("\n")
        old = lines[ln]
        new = old[:a] + re.sub(OPS[oi][0], OPS[oi][1], old[a:b], count=1) + old[b:]
        if new == old:
            res["status"] = "no-change"
            return res
        lines[ln] = new
        open(p, "w").write("\n".join(lines))
        res["old"], res["new"] = old.strip(), new.strip()
        rc, o = run([VGO, "build", "./..."], cwd=wt)
        if rc != 0:
            res["status"] = "does-not-build"
            return res
        rc, o = run([VGO, "test", "-vet=off", "-count=1", "./..."], cwd=wt, timeout=1500)
        fails = [l for l in o.split("\n") if re.match(r"^(FAIL|---)", l) and "internal/test/t2" not in l and "TestEmptyKeyword" not in l and l.strip() != "FAIL"]
        if fails:
            res["status"] = "killed-by-suite"
            return res
        killed = []
        detail = {}
        for pid in props:
            env = dict(ENV, VERIF_REPO=wt, VERIF_OUT=out, VERIF_SEED=os.environ.get("VERIF_SEED", "1"))
            rc, o = run([os.path.join(VERIF, "bin/vcheck"), pid, "quick"], cwd=VERIF, env=env, timeout=2400)
            first = next((l for l in o.split("\n") if re.match(r"^(VIOLATION|OK|INCONCLUSIVE)", l)), o[-200:])
            detail[pid] = f"rc={rc} {first[:220]}"
            if rc == 1 and "VIOLATION" in o:
                killed.append(pid)
                break  # one kill is enough
        res["detail"] = detail
        if killed:
            res["status"] = "killed:" + ",".join(killed)
        elif any(v.startswith("rc=2") or v.startswith("rc=124") for v in detail.values()):
            res["status"] = "INCONCLUSIVE"
        else:
            res["status"] = "SURVIVED"
        return res
    finally:
        run(["git", "-C", REPO, "worktree", "remove", "--force", wt])
        shutil.rmtree(out, ignore_errors=True)
        shutil.rmtree(wt, ignore_errors=True)


def main():
    n, seed, workers = int(sys.argv[1]), int(sys.argv[2]), int(sys.argv[3])
    filt = sys.argv[4] if len(sys.argv) > 4 else ""
    os.makedirs(OUT, exist_ok=True)
    rnd = random.Random(seed)
    anc = anchored()
    pool = []
    for f, props in sorted(anc.items()):
        if filt and filt not in f:
            continue
        text = open(os.path.join(REPO, f)).read()
        for (ln, a, b, oi) in candidates(f, text):
            pool.append((f, ln, a, b, oi, props))
    rnd.shuffle(pool)
    # spread over files: at most ceil(n/len(files))+2 per file
    per = collections.Counter()
    cap = n // max(1, len({p[0] for p in pool})) + 2
    jobs = []
    for p in pool:
        if per[p[0]] >= cap:
            continue
        per[p[0]] += 1
        jobs.append((len(jobs) + seed * 1000,) + p)
        if len(jobs) >= n:
            break
    only = os.environ.get("MUT_ONLY")
    if only:
        keep = {int(x) for x in only.split(",")}
        jobs = [j for j in jobs if j[0] in keep]
    print(f"pool {len(pool)} candidates, running {len(jobs)} mutants", flush=True)
    with concurrent.futures.ThreadPoolExecutor(workers) as ex, open(f"{OUT}/results.jsonl", "a") as rf:
        for r in ex.map(one, jobs):
            rf.write(json.dumps(r) + "\n")
            rf.flush()
            print(r["idx"], r["file"], r["line"], r.get("status"), "|", r.get("old", ""), "=>", r.get("new", ""), flush=True)


if __name__ == "__main__":
    main()
