#!/bin/bash
# usage: tools/seedtest.sh <dir with patch.diff [+ run.sh demo]> <tier> <ID> [ID...]
# Applies the patch to a scratch worktree of /repo (never to /repo itself), optionally runs
# the demonstration on both trees, then runs the named checks against the worktree with
# evidence/replays redirected away from /verif. Prints one line per check.
set -u
seed=$(cd "$1" && pwd); tier=$2; shift 2
. "$(dirname "$0")/../env.sh"
tag=$(basename "$seed")_$$
wt=/tmp/st/wt_$tag; out=/tmp/st/out_$tag
mkdir -p /tmp/st
git -C /repo worktree add -q --detach "$wt" HEAD || exit 2
trap 'git -C /repo worktree remove --force "$wt" >/dev/null 2>&1; rm -rf "$out"' EXIT
if ! git -C "$wt" apply "$seed/patch.diff"; then echo "PATCH DOES NOT APPLY"; exit 2; fi
if ! (cd "$wt" && "$VGO" build ./... ); then echo "PATCHED TREE DOES NOT BUILD"; exit 2; fi
if [ "${SEED_SUITE:-1}" = 1 ]; then
  fails=$(cd "$wt" && "$VGO" test -vet=off -count=1 ./... 2>&1 | grep -E "^(FAIL|---)" | grep -v "internal/test/t2" | grep -v "TestEmptyKeyword" | grep -v '^FAIL$')
  if [ -n "$fails" ]; then echo "PATCHED TREE FAILS THE PINNED SUITE:"; echo "$fails"; else echo "suite: passes on patched tree (t2 excluded)"; fi
fi
if [ -x "$seed/run.sh" ] && [ "${SEED_DEMO:-1}" = 1 ]; then
  (cd "$seed" && timeout 600 ./run.sh /repo >/tmp/st/demo_clean_$tag.log 2>&1); a=$?
  (cd "$seed" && timeout 600 ./run.sh "$wt" >/tmp/st/demo_patched_$tag.log 2>&1); b=$?
  echo "demo: unchanged tree exit=$a  patched tree exit=$b"
fi
mkdir -p "$out"
cd "$VERIF_ROOT"
"$VGO" build -o bin/vcheck ./cmd/vcheck || exit 2
for id in "$@"; do
  s=$(date +%s)
  res=$(VERIF_REPO="$wt" VERIF_OUT="$out" bin/vcheck "$id" "$tier" 2>&1); rc=$?
  e=$(date +%s)
  nv=$(echo "$res" | grep -c '^VIOLATION')
  echo "check $id $tier: rc=$rc violations=$nv time=$((e-s))s :: $(echo "$res" | grep -m1 -E '^(VIOLATION|OK|INCONCLUSIVE)' | cut -c1-260)"
done
