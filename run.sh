#!/bin/bash
# usage: run.sh <ID> <quick|thorough> [--replay file]
# Rebuilds the orchestrator (incremental) and runs one property's campaign against /repo's working tree.
. "$(dirname "$0")/env.sh"
cd "$VERIF_ROOT"
cp /repo/go.sum "$VERIF_ROOT/go.sum" 2>/dev/null || true
mkdir -p bin evidence replays
if ! "$VGO" build -o bin/vcheck ./cmd/vcheck; then
  echo "INCONCLUSIVE harness build failed"
  exit 2
fi
exec bin/vcheck "$@"
