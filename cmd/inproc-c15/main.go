// inproc-c15 drives the real front-end parser (shipped tables + shipped Parse loop) on
// synthetic token sequences and compares with M-SPEC.
// usage: inproc-c15 quick|thorough <seed> <repoDir>  |  inproc-c15 replay <repoDir> name name ...
package main

import (
	"fmt"
	"math/rand"
	"os"
	"regexp"
	"runtime"
	"strconv"
	"strings"
	"sync"

	"github.com/goccmack/gocc/internal/frontend/parser"
	"github.com/goccmack/gocc/internal/frontend/token"
	"github.com/goccmack/gocc/verifx/internal/inp"
	"github.com/goccmack/gocc/verifx/internal/model"
)

type listScanner struct {
	types []token.Type
	names []string
	i     int
	eofs  int
	calls int
	hook  func(call int) // called at the start of every Scan
}

func (s *listScanner) Scan() (*token.Token, token.Position) {
	if s.hook != nil {
		s.hook(s.calls)
	}
	s.calls++
	pos := token.Position{Offset: s.i, Line: 1, Column: s.i + 1}
	if s.i < len(s.types) {
		t := token.NewToken(s.types[s.i], []byte(s.names[s.i]))
		s.i++
		return t, pos
	}
	s.eofs++
	if s.eofs > 1000 {
		panic("scanner called more than 1000 times after end of input")
	}
	return token.NewToken(token.EOF, nil), pos
}

type worker struct {
	p    *parser.Parser
	reds []int
}

func newWorker() *worker {
	w := &worker{}
	tab := make(parser.ProdTab, len(parser.ProductionsTable))
	copy(tab, parser.ProductionsTable)
	for i := range tab {
		idx := i
		tab[i].ReduceFunc = func(X []parser.Attrib) (parser.Attrib, error) {
			w.reds = append(w.reds, idx)
			return struct{}{}, nil
		}
	}
	w.p = parser.NewParser(parser.ActionTable, parser.GotoTable, tab, token.FRONTENDTokens)
	return w
}

func (w *worker) run(types []token.Type, names []string) (accepted bool, reds []int, perr string) {
	w.reds = w.reds[:0]
	defer func() {
		if r := recover(); r != nil {
			perr = fmt.Sprint(r)
		}
	}()
	_, err := w.p.Parse(&listScanner{types: types, names: names})
	return err == nil, append([]int(nil), w.reds...), ""
}

// runNested parses (types, names) while a second parser object parses another sequence to its
// end in the middle of it: between the at-th and the (at+1)-th token handed to w's parser.
func (w *worker) runNested(types []token.Type, names []string, at int, other *worker, otypes []token.Type, onames []string) (accepted bool, reds []int, perr string) {
	w.reds = w.reds[:0]
	defer func() {
		if r := recover(); r != nil {
			perr = fmt.Sprint(r)
		}
	}()
	sc := &listScanner{types: types, names: names}
	sc.hook = func(call int) {
		if call == at {
			other.run(otypes, onames)
		}
	}
	_, err := w.p.Parse(sc)
	return err == nil, append([]int(nil), w.reds...), ""
}

var sdtRe = regexp.MustCompile(`<<.*>>`)

// tableProd renders a ProdTabEntry as "Head : sym sym" from its own String field.
func tableProd(e parser.ProdTabEntry) string {
	s := sdtRe.ReplaceAllString(e.String, "")
	s = strings.TrimSpace(s)
	s = strings.TrimSuffix(s, ";")
	s = strings.Join(strings.Fields(s), " ")
	return strings.Replace(s, "S! :", "S' :", 1)
}

func modelProd(c *model.CFG, p int) string {
	s := c.NTs[c.Prods[p].Head] + " :"
	for _, b := range c.Prods[p].Body {
		s += " " + strings.TrimPrefix(c.SymName(b), "kw:")
	}
	return s
}

func main() {
	res := &inp.Result{Extra: map[string]interface{}{}}
	defer res.Write()
	mode := os.Args[1]
	var repoDir string
	var seed int64
	if mode == "replay" {
		repoDir = os.Args[2]
	} else {
		seed, _ = strconv.ParseInt(os.Args[2], 10, 64)
		repoDir = os.Args[3]
	}
	spec, err := model.LoadMSpec(repoDir)
	if err != nil {
		res.Inconclusive = append(res.Inconclusive, "cannot read spec: "+err.Error())
		return
	}
	lr, err := model.NewLR1(spec.CFG)
	if err != nil {
		res.Inconclusive = append(res.Inconclusive, "M-LR1 over the spec: "+err.Error())
		return
	}
	if cls, _ := lr.Classify(); cls != model.ClassClean {
		res.Inconclusive = append(res.Inconclusive, "the grammar in spec/gocc2.ebnf is not LR(1) according to M-LR1; derivations cannot be compared")
		return
	}
	// the alphabet: every token of FRONTENDTokens except end of input
	var alphaT []token.Type
	var alphaN []string
	var alphaID []int // M-SPEC terminal id or -1
	for t := 1; t < token.FRONTENDTokens.Len(); t++ {
		name := token.FRONTENDTokens.TokenString(token.Type(t))
		alphaT = append(alphaT, token.Type(t))
		alphaN = append(alphaN, name)
		id, ok := spec.CFG.TermID(model.SpecTermName(name))
		if !ok {
			id = -1
		}
		alphaID = append(alphaID, id)
	}
	res.Extra["alphabet"] = alphaN
	// static comparison of the productions tables with the spec
	if len(parser.ProductionsTable) != len(spec.CFG.Prods) {
		res.Viol(inp.Violation{Kind: "tables", Note: fmt.Sprintf("ProductionsTable has %d entries, spec/gocc2.ebnf has %d productions (with S')", len(parser.ProductionsTable), len(spec.CFG.Prods))})
	}
	var mu sync.Mutex
	judge := func(w *worker, seq []int) (nontrivial bool) {
		types := make([]token.Type, len(seq))
		names := make([]string, len(seq))
		ids := make([]int, len(seq))
		known := true
		for i, a := range seq {
			types[i], names[i], ids[i] = alphaT[a], alphaN[a], alphaID[a]
			if ids[i] < 0 {
				known = false
			}
		}
		want := known && spec.Earley.Accepts(ids)
		got, reds, perr := w.run(types, names)
		var v *inp.Violation
		switch {
		case perr != "":
			v = &inp.Violation{Kind: "seq", Toks: names, Note: "front-end parser panicked: " + perr}
		case got && !want:
			v = &inp.Violation{Kind: "seq", Toks: names, Note: "the front end accepts a token sequence that is not a sentence of spec/gocc2.ebnf"}
		case !got && want:
			v = &inp.Violation{Kind: "seq", Toks: names, Note: "the front end rejects a sentence of spec/gocc2.ebnf"}
		case got && want:
			m := lr.Parse(ids, model.ParseOpts{FailAt: -1})
			var exp, obs []string
			for _, p := range m.Reductions {
				exp = append(exp, modelProd(spec.CFG, p))
			}
			for _, p := range reds {
				e := parser.ProductionsTable[p]
				s := tableProd(e)
				obs = append(obs, s)
				parts := strings.SplitN(s, " :", 2)
				body := strings.Fields(parts[1])
				if string(e.Head) != parts[0] && !(string(e.Head) == "S!" && parts[0] == "S'") {
					v = &inp.Violation{Kind: "seq", Toks: names, Note: fmt.Sprintf("production %d: Head field %q does not match its String %q", p, e.Head, e.String)}
				}
				if e.NumSymbols != len(body) {
					v = &inp.Violation{Kind: "seq", Toks: names, Note: fmt.Sprintf("production %d: NumSymbols %d does not match its String %q", p, e.NumSymbols, e.String)}
				}
			}
			if v == nil && strings.Join(exp, " / ") != strings.Join(obs, " / ") {
				v = &inp.Violation{Kind: "seq", Toks: names, Expected: exp, Observed: obs, Note: "the reductions performed do not correspond to the productions of spec/gocc2.ebnf (reverse rightmost derivation differs)"}
			}
			nontrivial = true
		}
		if v != nil {
			mu.Lock()
			res.Viol(*v)
			mu.Unlock()
		}
		return
	}
	if mode == "replay" {
		idx := map[string]int{}
		for i, n := range alphaN {
			idx[n] = i
		}
		var seq []int
		for _, n := range os.Args[3:] {
			i, ok := idx[n]
			if !ok {
				res.Inconclusive = append(res.Inconclusive, "unknown token "+n)
				return
			}
			seq = append(seq, i)
		}
		res.Evaluations = 1
		judge(newWorker(), seq)
		return
	}
	maxLen, nSent, nMut := 4, 3000, 10000
	if mode == "thorough" {
		maxLen, nSent, nMut = 5, 50000, 300000
	}
	// exhaustive part, split by first token over the cores
	A := len(alphaT)
	var wg sync.WaitGroup
	evals := make([]int, A+1)
	accepted := make([]int, A+1)
	sem := make(chan struct{}, runtime.NumCPU())
	for first := -1; first < A; first++ {
		wg.Add(1)
		go func(first int) {
			defer wg.Done()
			sem <- struct{}{}
			defer func() { <-sem }()
			w := newWorker()
			var rec func(seq []int)
			rec = func(seq []int) {
				evals[first+1]++
				if judge(w, seq) {
					accepted[first+1]++
				}
				if len(seq) == maxLen {
					return
				}
				for a := 0; a < A; a++ {
					rec(append(seq, a))
				}
			}
			if first < 0 {
				evals[0]++
				judge(w, nil)
				return
			}
			rec([]int{first})
		}(first)
	}
	wg.Wait()
	exh, acc := 0, 0
	for i := range evals {
		exh += evals[i]
		acc += accepted[i]
	}
	res.Evaluations += exh
	res.Nontrivial += acc
	res.Extra["exhaustive_max_length"] = maxLen
	res.Extra["exhaustive_sequences"] = exh
	res.Extra["exhaustive_sentences"] = acc
	// random sentences and their mutants
	r := rand.New(rand.NewSource(seed))
	sg := model.NewSentenceGen(spec.CFG)
	toAlpha := map[int]int{}
	for i, id := range alphaID {
		if id >= 0 {
			toAlpha[id] = i
		}
	}
	w := newWorker()
	prodsSeen := map[int]bool{}
	seen := map[string]bool{}
	var sentences [][]int
	for i := 0; i < nSent; i++ {
		s := sg.Random(r, 3+r.Intn(40))
		seq := make([]int, len(s))
		for k, id := range s {
			seq[k] = toAlpha[id]
		}
		key := fmt.Sprint(seq)
		if seen[key] {
			continue
		}
		seen[key] = true
		sentences = append(sentences, seq)
		res.Evaluations++
		if judge(w, seq) {
			res.Nontrivial++
		}
		for _, p := range w.reds {
			prodsSeen[p] = true
		}
		if len(res.Samples) < 3 && len(seq) > 6 && len(seq) < 30 {
			var names []string
			for _, a := range seq {
				names = append(names, alphaN[a])
			}
			res.Sample(map[string]interface{}{"sentence": strings.Join(names, " "), "reductions": len(w.reds)})
		}
	}
	res.Extra["random_sentences"] = len(sentences)
	res.Extra["productions_exercised"] = len(prodsSeen)
	res.Extra["productions_total"] = len(parser.ProductionsTable)
	mut := 0
	for i := 0; i < nMut && len(sentences) > 0; i++ {
		s := append([]int(nil), sentences[r.Intn(len(sentences))]...)
		for e := 1 + r.Intn(2); e > 0; e-- {
			switch r.Intn(3) {
			case 0:
				if len(s) > 0 {
					k := r.Intn(len(s))
					s = append(s[:k], s[k+1:]...)
				}
			case 1:
				k := r.Intn(len(s) + 1)
				s = append(s[:k], append([]int{r.Intn(A)}, s[k:]...)...)
			case 2:
				if len(s) > 0 {
					s[r.Intn(len(s))] = r.Intn(A)
				}
			}
		}
		key := fmt.Sprint(s)
		if seen[key] {
			continue
		}
		seen[key] = true
		mut++
		res.Evaluations++
		judge(w, s)
	}
	res.Extra["mutants"] = mut
	// two parser objects in use at the same time: while one is in the middle of a sentence the
	// other parses a whole sequence; neither result may change (single goroutine, so what is
	// observed is object independence, not scheduling)
	{
		w2 := newWorker()
		nested, diff := 0, 0
		for i := 0; i < 400 && len(sentences) > 1; i++ {
			a := sentences[r.Intn(len(sentences))]
			b := sentences[r.Intn(len(sentences))]
			if i%3 == 0 && len(b) > 1 {
				b = b[:1+r.Intn(len(b)-1)] // a non-sentence (a proper prefix) as the intruder
			}
			conv := func(seq []int) ([]token.Type, []string) {
				ty := make([]token.Type, len(seq))
				nm := make([]string, len(seq))
				for k, x := range seq {
					ty[k], nm[k] = alphaT[x], alphaN[x]
				}
				return ty, nm
			}
			at, an := conv(a)
			bt, bn := conv(b)
			acc0, red0, _ := w.run(at, an)
			k := r.Intn(len(a) + 1)
			acc1, red1, perr := w.runNested(at, an, k, w2, bt, bn)
			nested++
			res.Evaluations++
			if perr != "" || acc0 != acc1 || fmt.Sprint(red0) != fmt.Sprint(red1) {
				diff++
				if diff <= 3 {
					res.Viol(inp.Violation{Kind: "seq", Toks: an, Note: fmt.Sprintf("the result of a parse changes when another parser object parses %v between its tokens %d and %d (accepted alone=%v nested=%v %s)", bn, k, k+1, acc0, acc1, perr)})
				}
			} else {
				res.Nontrivial++
			}
		}
		res.Extra["nested_parses_with_a_second_parser_object"] = nested
	}
	// nesting: the only way to make the front end's parse stack deep is bracket nesting in a
	// lexical pattern (all lists of the grammar are left-recursive). Depths run past the
	// stack's initial capacity and its first doublings; each sentence is also judged with one
	// closing bracket removed and with one extra.
	idx := map[string]int{}
	for i, n := range alphaN {
		idx[n] = i
	}
	need := []string{"tokId", ":", ";", "char_lit", "|", "(", ")", "[", "]", "{", "}"}
	haveAll := true
	for _, n := range need {
		if _, ok := idx[n]; !ok {
			haveAll = false
		}
	}
	if !haveAll {
		res.Inconclusive = append(res.Inconclusive, "the front end's token names are not the ones the nesting stratum knows")
	} else {
		depths := []int{}
		for k := 1; k <= 70; k++ {
			depths = append(depths, k)
		}
		depths = append(depths, 97, 98, 99, 100, 101, 102, 127, 128, 129, 150, 199, 200, 201, 260)
		if mode == "thorough" {
			for k := 71; k <= 420; k++ {
				depths = append(depths, k)
			}
		}
		open := []string{"(", "[", "{"}
		closeOf := map[string]string{"(": ")", "[": "]", "{": "}"}
		nest, maxDepth := 0, 0
		for _, k := range depths {
			for shape := 0; shape < 3; shape++ {
				seq := []int{idx["tokId"], idx[":"]}
				var closers []string
				for d := 0; d < k; d++ {
					o := open[r.Intn(3)]
					switch shape {
					case 0: // x ( x ( ...
						seq = append(seq, idx["char_lit"], idx[o])
					case 1: // x | y ( ...
						seq = append(seq, idx["char_lit"], idx["|"], idx["char_lit"], idx[o])
					case 2: // ( ( ( ...
						seq = append(seq, idx[o])
					}
					closers = append(closers, closeOf[o])
				}
				seq = append(seq, idx["char_lit"])
				for d := len(closers) - 1; d >= 0; d-- {
					seq = append(seq, idx[closers[d]])
					if shape == 1 && r.Intn(2) == 0 {
						seq = append(seq, idx["char_lit"])
					}
				}
				seq = append(seq, idx[";"])
				res.Evaluations++
				nest++
				if judge(w, seq) {
					res.Nontrivial++
				}
				if m := lr.Parse(func() []int {
					ids := make([]int, len(seq))
					for i, a := range seq {
						ids[i] = alphaID[a]
					}
					return ids
				}(), model.ParseOpts{FailAt: -1}); m.MaxDepth > maxDepth {
					maxDepth = m.MaxDepth
				}
				// one closer dropped / one doubled
				at := len(seq) - 2 - r.Intn(k)
				if at > 2 {
					drop := append(append([]int(nil), seq[:at]...), seq[at+1:]...)
					dbl := append(append(append([]int(nil), seq[:at]...), seq[at]), seq[at:]...)
					res.Evaluations += 2
					judge(w, drop)
					judge(w, dbl)
				}
			}
		}
		res.Extra["nesting_sentences"] = nest
		res.Extra["nesting_max_reference_stack_depth"] = maxDepth
	}
	res.Exhaustive = false
}
