// vcheck runs one property's campaign: vcheck <ID> <quick|thorough> [--replay file]
package main

import (
	"fmt"
	"os"

	"github.com/goccmack/gocc/verifx/internal/camp"
)

func main() {
	if len(os.Args) < 2 {
		fmt.Println("usage: vcheck <ID> <quick|thorough> [--replay file]")
		os.Exit(2)
	}
	id := os.Args[1]
	tier := ""
	replay := ""
	for i := 2; i < len(os.Args); i++ {
		switch os.Args[i] {
		case "quick", "thorough":
			tier = os.Args[i]
		case "--replay":
			if i+1 < len(os.Args) {
				replay = os.Args[i+1]
				i++
			}
		}
	}
	if root := os.Getenv("VERIF_ROOT"); root != "" {
		camp.VerifRoot = root
	}
	os.Exit(camp.Main(id, tier, replay))
}
