// mkfindings writes /verif/known_findings.json from the table in this file. It is a
// development tool: checks never write that file.
package main

import (
	"encoding/json"
	"fmt"
	"math/rand"
	"os"

	"github.com/goccmack/gocc/verifx/internal/camp"
	. "github.com/goccmack/gocc/verifx/internal/gram"
)

func tok(name string, p *Pattern) LexDef { return LexDef{Kind: DTok, Name: name, Pat: p} }
func ign(name string, p *Pattern) LexDef { return LexDef{Kind: DIgn, Name: name, Pat: p} }
func reg(name string, p *Pattern) LexDef { return LexDef{Kind: DReg, Name: name, Pat: p} }

func lexCase(prop string, defs []LexDef, input string) camp.Witness {
	return camp.Witness{Property: prop, Kind: "lex", Grammar: &Grammar{Lex: defs}, Input: []byte(input)}
}

func main() {
	var fs []camp.KnownFinding
	add := func(prop, id, status, commit, what string, c camp.Witness) {
		c.Property = prop
		if c.Grammar != nil {
			c.Text = c.Grammar.Render(nil)
		}
		fs = append(fs, camp.KnownFinding{Property: prop, ID: id, Status: status, Commit: commit, What: what, Case: c})
	}
	// ---- F10 (fixed)
	f10 := []LexDef{tok("a", Seq(Lit('a'))), tok("c", Seq(Lit('c'))), ign("!ig", Seq(Lit('a'), Lit('b')))}
	add("C01", "F10", "fixed", "da9a029", "after an ignored lexeme restarted the scan the previous token type was kept: abX gave token a with an empty literal instead of INVALID X", lexCase("C01", f10, "abX"))
	add("C08", "F10", "fixed", "da9a029", "token with empty literal and the following character silently consumed after an ignored lexeme (abXc)", lexCase("C08", f10, "abXc"))
	// ---- F4 (fixed)
	f4 := []LexDef{tok("t", Seq(Lit('a'), Lit('b'), Lit('c')))}
	add("C08", "F4", "fixed", "1279c07", "the character swallowed by an INVALID token was not counted: ?abc reported abc at column 1", lexCase("C08", f4, "?abc"))
	add("C08", "F4-nl", "fixed", "1279c07", "a newline swallowed by an INVALID token did not start a new line", lexCase("C08", f4, "ab\nabc"))
	// ---- F3 (open): regular definitions are shared return addresses, not macros
	f3a := []LexDef{reg("_x", Seq(Lit('a'), Lit('b'))), tok("t", Seq(Ref("_x"), Lit('c'))), tok("u", Seq(Lit('a'), Ref("_x"), Lit('d')))}
	add("C01", "F3-a", "fixed", "d9858c3", "regdef shared between two use sites: with _x:'a' 'b'; t:_x 'c'; u:'a' _x 'd'; the input abd is lexed as token u", lexCase("C01", f3a, "abd"))
	add("C01", "F3-b", "fixed", "d9858c3", "regdef shared between two use sites: with _x:'a' 'b'; t:_x 'c'; u:'a' _x 'd'; the sentence aabd of u is rejected", lexCase("C01", f3a, "aabd"))
	f3c := []LexDef{reg("_o", Seq(Opt(Seq(Lit('a'))))), tok("t", Seq(Ref("_o"), Lit('b')))}
	add("C01", "F3-c", "fixed", "d9858c3", "nullable regdef: with _o:['a']; t:_o 'b'; the input b is rejected", lexCase("C01", f3c, "b"))
	f3d := []LexDef{reg("_y", Seq(Lit('c'), Opt(Seq(Lit('c'), Lit('c'))))), tok("w", Seq(Lit('r'), Rep(Seq(Ref("_y")))))}
	add("C01", "F3-d", "fixed", "d9858c3", "regdef inside a repetition: with _y:'c' ['c' 'c']; w:'r' {_y}; the input rcc is not one token w", lexCase("C01", f3d, "rcc"))
	f3e := []LexDef{reg("_x", Seq(Lit('a'), Lit('b'))), tok("v", Seq(Lit('q'), Rep(Seq(Lit('a'))), Ref("_x"), Lit('z')))}
	add("C01", "F3-e", "fixed", "d9858c3", "regdef after a repetition that shares its first character: with _x:'a' 'b'; v:'q' {'a'} _x 'z'; the input qaabz is rejected", lexCase("C01", f3e, "qaabz"))

	// ---- F8 (fixed): canRecover at any dot position
	nt := func(n string) Sym { return Sym{Kind: SNT, Name: n} }
	tk := func(n string) Sym { return Sym{Kind: STok, Name: n} }
	st := func(n string) Sym { return Sym{Kind: SStr, Name: n} }
	f8 := &Grammar{NTs: []*NTDef{
		{Head: "S", Alts: []SAlt{{Body: []Sym{nt("L")}}}},
		{Head: "L", Alts: []SAlt{{Body: []Sym{nt("I"), tk("d"), nt("L")}}, {Body: []Sym{nt("I")}}}},
		{Head: "I", Alts: []SAlt{{Body: []Sym{st("!")}}, {Err: true, Body: []Sym{tk("d")}}}},
	}}
	AssignActions(rand.New(rand.NewSource(1)), f8, 1)
	add("C07", "F8", "fixed", "f948a4a", "states inside an error alternative were flagged as recovery states: a second error after 'error d' was not recovered although state 0 can shift error (tokens d ! ! d)",
		camp.Witness{Kind: "parse", Grammar: f8, Toks: []string{"d", "!", "!", "d"}, FailAt: -1})
	// ---- F7 (fixed): action.(shift) panic
	f7 := &Grammar{NTs: []*NTDef{
		{Head: "Prog", Alts: []SAlt{{Body: []Sym{nt("Stmts")}}}},
		{Head: "Stmts", Alts: []SAlt{{Empty: true}, {Body: []Sym{nt("Stmts"), nt("Stmt")}}}},
		{Head: "Stmt", Alts: []SAlt{{Body: []Sym{tk("b"), st(";")}}, {Err: true, Body: []Sym{st(")")}}}},
	}}
	AssignActions(rand.New(rand.NewSource(1)), f7, 1)
	add("C07", "F7", "fixed", "426c6f1", "Parse panicked (action.(shift)) on the first syntax error when the entry for 'error' in the top state is a reduction (tokens: else-like stray token)",
		camp.Witness{Kind: "parse", Grammar: f7, Toks: []string{")"}, FailAt: -1})

	// ---- F1 (fixed): front-end pseudo error recovery
	add("C14", "F1", "fixed", "194db0c", "the front end 'recovered' from a syntax error at the start of a syntax alternative and accepted the file: A : ) ) ) \"c\" ; exited 0",
		camp.Witness{Kind: "c14", Text: "A : ) ) ) \"c\" ;\n", Strs: []string{"ins", "token sequence is not a sentence of spec/gocc2.ebnf"}})
	add("C14", "F1-b", "fixed", "194db0c", "stray illegal character at the start of an alternative was skipped: S : # a b ; exited 0",
		camp.Witness{Kind: "c14", Text: "a : 'a' ;\nb : 'b' ;\nS : # a b | b ;\n", Strs: []string{"ins", "token sequence is not a sentence of spec/gocc2.ebnf"}})
	// ---- F11 (fixed): undefined regdef inside an unused regdef
	add("C14", "F11", "fixed", "95fb0a7", "undefined regular definition referenced only from an unused regular definition was accepted: _a : _undef ; t : 'x' ;",
		camp.Witness{Kind: "c14", Text: "_a : _undef ;\nt : 'x' ;\n", Strs: []string{"undef-regdef", "uses an undefined regular definition"}})
	// ---- F15 (fixed): unclosed block comment swallowed the rest of the file
	add("C14", "F15", "fixed", "18e50e2", "an unclosed /* comment swallowed the rest of the grammar file and gocc exited 0",
		camp.Witness{Kind: "c14", Text: "S : \"a\" B ;\nB : \"b\" ;\n/* tail : never closed\nC : \"c\" ;\n", Strs: []string{"ins", "token sequence is not a sentence of spec/gocc2.ebnf"}})
	add("C14", "F15-b", "fixed", "18e50e2", "a file ending in /* or /*/ was accepted",
		camp.Witness{Kind: "c14", Text: "t : 'a' ;\nS : t ;\n/*/", Strs: []string{"ins", "token sequence is not a sentence of spec/gocc2.ebnf"}})
	// ---- F12 (fixed): duplicate alternatives merged
	f12 := &Grammar{NTs: []*NTDef{{Head: "S", Alts: []SAlt{{Body: []Sym{tk("c")}}, {Body: []Sym{tk("k"), nt("S"), st("*")}}, {Body: []Sym{tk("k"), nt("S"), st("*")}}}}}}
	add("C04", "F12", "fixed", "ba2fbdb", "two alternatives with the same body were merged into one LR(1) item, so their reduce/reduce conflict was never announced: S : c | k S \"*\" | k S \"*\" ;",
		camp.Witness{Kind: "c04", Grammar: f12})

	// ---- F2 (fixed): epsilon-move worklist
	add("C09", "F2", "fixed", "875e02b", "gocc never terminated (and allocated without bound) on a nullable body inside a repetition: t : 'x' { [ 'a' ] } ;",
		camp.Witness{Kind: "c09", Text: "t : 'x' { [ 'a' ] } ;\n", Strs: []string{"nullable", "", ""}})
	add("C09", "F2-b", "fixed", "875e02b", "gocc never terminated on t : 'q' { 'a' | [ 'b' ] } 'z' ;",
		camp.Witness{Kind: "c09", Text: "t : 'q' { 'a' | [ 'b' ] } 'z' ;\n", Strs: []string{"nullable", "", ""}})
	// ---- F5 (fixed): idMap quoting
	add("C09", "F5", "fixed", "3b73433", "a raw string literal containing a backslash made go/format fail and an empty token.go was written with status zero",
		camp.Witness{Kind: "c09", Text: "a : 'a' ;\nS : `\\` a | a a ;\n", Flags: []string{"-a"}, Strs: []string{"hostile", "", ""}})
	// ---- F6 (fixed): back-quote / newline in production strings and comments
	add("C09", "F6-a", "fixed", "1bb18af", "a back-quote inside a string literal made productionstable.go uncompilable",
		camp.Witness{Kind: "c09", Text: "a : 'a' ;\nS : \"`\" a | a a ;\n", Flags: []string{"-a"}, Strs: []string{"hostile", "", ""}})
	add("C09", "F6-b", "fixed", "907040a", "a newline inside a raw string literal broke the // comments of actiontable.go",
		camp.Witness{Kind: "c09", Text: "a : 'a' ;\nS : `x\ny` a | a a ;\n", Flags: []string{"-a"}, Strs: []string{"hostile", "", ""}})
	// ---- F13 (fixed): invalid UTF-8 byte in a string literal
	f13 := "a : 'a' ;\nS : \"th\xffn\" a | a a ;\n"
	add("C09", "F13", "fixed", "31d6772", "a byte that is not valid UTF-8 inside a string literal was copied into actiontable.go / productionstable.go, which then did not compile (status zero)",
		camp.Witness{Kind: "c09", Text: f13, Raw: []byte(f13), Flags: []string{"-a"}, Strs: []string{"mutant", "", ""}})
	// ---- F9 (fixed): reserved spellings
	f9 := &Grammar{Lex: []LexDef{tok("a", Seq(Lit('a')))}, NTs: []*NTDef{{Head: "S", Alts: []SAlt{{Body: []Sym{st("INVALID"), tk("a")}}, {Body: []Sym{tk("a")}}}}}}
	add("C10", "F9", "fixed", "b30ce9e", "a string literal \"INVALID\" shared token number 0 with the INVALID token (and a production named INVALID shifted every number); such grammars are now refused",
		camp.Witness{Kind: "c10", Grammar: f9, Flags: []string{"-a"}, Strs: []string{"combined"}})
	// ---- F14 (fixed): NUL / BOM in a string literal
	f14 := "a : 'a' ;\nS : \"w\x00h\" a | \"x\ufeffy\" | a a ;\n"
	add("C09", "F14", "fixed", "d7221bc", "a NUL character or a byte-order mark inside a string literal was copied into actiontable.go / productionstable.go, which then did not compile (status zero)",
		camp.Witness{Kind: "c09", Text: f14, Raw: []byte(f14), Flags: []string{"-a"}, Strs: []string{"mutant", "", ""}})
	// ---- F4b (fixed): Lexer.Reset
	f4b := &Grammar{Lex: []LexDef{tok("a", Seq(Lit('a'))), ign("!ws", Alts([]Term{Lit(' ')}, []Term{Lit('\n')}))},
		NTs: []*NTDef{{Head: "S", Alts: []SAlt{{Body: []Sym{tk("a")}}, {Body: []Sym{nt("S"), tk("a")}}}}}}
	add("C16", "F4b", "fixed", "ff84b64", "Lexer.Reset rewound the offset but kept line and column, so positions after Reset differed from a fresh lexer's",
		camp.Witness{Kind: "reset", Grammar: f4b, Input: []byte("a\na a\n a"), Ints: []int64{3}})

	out := map[string]interface{}{"findings": fs}
	var log []string
	for _, f := range fs {
		if f.Status == "fixed" {
			log = append(log, fmt.Sprintf("fixed: property=%s %s %s", f.Property, f.Commit, f.What))
		}
	}
	out["fixed_log"] = log
	b, _ := json.MarshalIndent(out, "", " ")
	if err := os.WriteFile("/verif/known_findings.json", append(b, '\n'), 0666); err != nil {
		panic(err)
	}
	fmt.Println("wrote", len(fs), "findings")
}
