// inproc-c18 drives the real items.DisjunctRangeSet in process.
// usage: inproc-c18 quick|thorough <seed>   |   inproc-c18 replay from to from to ...
package main

import (
	"fmt"
	"math/rand"
	"os"
	"strconv"

	"github.com/goccmack/gocc/internal/lexer/items"
	"github.com/goccmack/gocc/verifx/internal/inp"
)

type iv struct{ lo, hi rune }

// check runs one AddRange sequence and returns "" or what is wrong.
func check(seq []iv) (why string, classes [][2]rune) {
	defer func() {
		if r := recover(); r != nil {
			why = fmt.Sprintf("panic: %v", r)
		}
	}()
	s := items.NewDisjunctRangeSet()
	for _, x := range seq {
		s.AddRange(x.lo, x.hi)
	}
	for _, c := range s.List() {
		classes = append(classes, [2]rune{c.From, c.To})
	}
	for i, c := range classes {
		if c[0] > c[1] {
			return fmt.Sprintf("class %d is empty", i), classes
		}
		if i > 0 && classes[i-1][1] >= c[0] {
			return fmt.Sprintf("classes %d and %d are not sorted / overlap", i-1, i), classes
		}
		inside := false
		for _, x := range seq {
			if x.lo <= c[0] && c[1] <= x.hi {
				inside = true
				break
			}
		}
		if !inside {
			return fmt.Sprintf("class %d [%d,%d] is not inside any added interval (union too large or class straddles a boundary)", i, c[0], c[1]), classes
		}
	}
	for _, x := range seq {
		if x.lo > x.hi {
			continue
		}
		next := x.lo
		for _, c := range classes {
			if c[1] < x.lo || c[0] > x.hi {
				continue
			}
			if c[0] != next || c[1] > x.hi {
				return fmt.Sprintf("added interval [%d,%d] is not a union of classes", x.lo, x.hi), classes
			}
			next = c[1] + 1
		}
		if next != x.hi+1 {
			return fmt.Sprintf("added interval [%d,%d] is not covered by the classes", x.lo, x.hi), classes
		}
	}
	return "", classes
}

func flat(seq []iv) []int64 {
	var out []int64
	for _, x := range seq {
		out = append(out, int64(x.lo), int64(x.hi))
	}
	return out
}

func main() {
	res := &inp.Result{Extra: map[string]interface{}{}}
	defer res.Write()
	mode := os.Args[1]
	if mode == "replay" {
		var seq []iv
		for i := 2; i+1 < len(os.Args); i += 2 {
			a, _ := strconv.ParseInt(os.Args[i], 10, 64)
			b, _ := strconv.ParseInt(os.Args[i+1], 10, 64)
			seq = append(seq, iv{rune(a), rune(b)})
		}
		res.Evaluations = 1
		if why, cl := check(seq); why != "" {
			res.Viol(inp.Violation{Kind: "drs", Ints: flat(seq), Observed: cl, Note: why})
		}
		return
	}
	seed, _ := strconv.ParseInt(os.Args[2], 10, 64)
	points, maxLen := 6, 3
	nRandom := 20000
	if mode == "thorough" {
		points, maxLen = 7, 4
		nRandom = 500000
	}
	// exhaustive part, on consecutive points at two bases (adjacency matters)
	var all []iv
	for a := 0; a < points; a++ {
		for b := a; b < points; b++ {
			all = append(all, iv{rune(a), rune(b)})
		}
	}
	sizes := map[int]int{}
	for _, base := range []rune{0, 0x10FFFF - rune(points) + 1} {
		var rec func(seq []iv)
		rec = func(seq []iv) {
			if len(seq) > 0 {
				shifted := make([]iv, len(seq))
				for i, x := range seq {
					shifted[i] = iv{x.lo + base, x.hi + base}
				}
				res.Evaluations++
				why, cl := check(shifted)
				sizes[len(cl)]++
				if len(seq) >= 2 {
					res.Nontrivial++
				}
				if why != "" {
					res.Viol(inp.Violation{Kind: "drs", Ints: flat(shifted), Observed: cl, Note: why})
				}
				if res.Evaluations%200003 == 1 {
					res.Sample(map[string]interface{}{"added": flat(shifted), "classes": cl})
				}
			}
			if len(seq) == maxLen {
				return
			}
			for _, x := range all {
				rec(append(seq, x))
			}
		}
		rec(nil)
	}
	res.Extra["exhaustive_points"] = points
	res.Extra["exhaustive_max_intervals"] = maxLen
	res.Extra["exhaustive_sequences"] = res.Evaluations
	// random part: mixed magnitudes
	r := rand.New(rand.NewSource(seed))
	anchors := []rune{0, 1, 9, 10, 13, 32, 'a', 'z', 0x7f, 0x80, 0x7ff, 0x800, 0xd7ff, 0xe000, 0xfffd, 0xffff, 0x10000, 0x10fffe, 0x10ffff}
	pick := func() rune {
		switch r.Intn(3) {
		case 0:
			return anchors[r.Intn(len(anchors))]
		case 1:
			v := anchors[r.Intn(len(anchors))] + rune(r.Intn(7)) - 3
			if v < 0 {
				v = 0
			}
			if v > 0x10ffff {
				v = 0x10ffff
			}
			return v
		}
		return rune(r.Intn(40))
	}
	seen := map[string]bool{}
	for i := 0; i < nRandom; i++ {
		n := 1 + r.Intn(12)
		if i%8 == 0 {
			n = 13 + r.Intn(30) // many classes in one set: the backing array has to grow while classes are inserted in the middle
		}
		seq := make([]iv, n)
		for k := range seq {
			a, b := pick(), pick()
			if a > b {
				a, b = b, a
			}
			if r.Intn(4) == 0 {
				b = a
			}
			seq[k] = iv{a, b}
		}
		res.Evaluations++
		why, cl := check(seq)
		sizes[len(cl)]++
		k := fmt.Sprint(seq)
		if !seen[k] && n >= 2 {
			seen[k] = true
			res.Nontrivial++
		}
		if why != "" {
			res.Viol(inp.Violation{Kind: "drs", Ints: flat(seq), Observed: cl, Note: why})
		}
		if i%100003 == 7 {
			res.Sample(map[string]interface{}{"added": flat(seq), "classes": cl})
		}
	}
	res.Extra["random_sequences"] = nRandom
	maxc := 0
	for k := range sizes {
		if k > maxc {
			maxc = k
		}
	}
	res.Extra["max_classes_in_one_set"] = maxc
	res.Extra["distinct_class_counts_seen"] = len(sizes)
}
