// inproc-corpus loads grammar files through gocc's real front end and prints them as harness IR (JSON).
// usage: inproc-corpus file.bnf ...
package main

import (
	"encoding/json"
	"fmt"
	"os"

	"github.com/goccmack/gocc/internal/ast"
	"github.com/goccmack/gocc/internal/frontend/parser"
	"github.com/goccmack/gocc/internal/frontend/scanner"
	"github.com/goccmack/gocc/internal/frontend/token"
	"github.com/goccmack/gocc/verifx/internal/gram"
)

type entry struct {
	Path    string        `json:"path"`
	Err     string        `json:"err,omitempty"`
	Grammar *gram.Grammar `json:"grammar,omitempty"`
}

func convPattern(p *ast.LexPattern) *gram.Pattern {
	out := &gram.Pattern{}
	for _, a := range p.Alternatives {
		var alt gram.Alt
		for _, t := range a.Terms {
			switch x := t.(type) {
			case *ast.LexCharLit:
				alt.Terms = append(alt.Terms, gram.Lit(x.Val))
			case *ast.LexCharRange:
				alt.Terms = append(alt.Terms, gram.Rng(x.From.Val, x.To.Val))
			case *ast.LexDot:
				alt.Terms = append(alt.Terms, gram.Dot())
			case *ast.LexRegDefId:
				alt.Terms = append(alt.Terms, gram.Ref(x.Id))
			case *ast.LexGroupPattern:
				alt.Terms = append(alt.Terms, gram.Group(convPattern(x.LexPattern)))
			case *ast.LexOptPattern:
				alt.Terms = append(alt.Terms, gram.Opt(convPattern(x.LexPattern)))
			case *ast.LexRepPattern:
				alt.Terms = append(alt.Terms, gram.Rep(convPattern(x.LexPattern)))
			default:
				panic(fmt.Sprintf("unknown lex term %T", t))
			}
		}
		out.Alts = append(out.Alts, alt)
	}
	return out
}

func load(path string) (e entry) {
	e.Path = path
	defer func() {
		if r := recover(); r != nil {
			e.Err = fmt.Sprint(r)
			e.Grammar = nil
		}
	}()
	src, err := os.ReadFile(path)
	if err != nil {
		e.Err = err.Error()
		return
	}
	sc := &scanner.Scanner{}
	sc.Init(src, token.FRONTENDTokens)
	p := parser.NewParser(parser.ActionTable, parser.GotoTable, parser.ProductionsTable, token.FRONTENDTokens)
	res, err := p.Parse(sc)
	if err != nil {
		e.Err = err.Error()
		return
	}
	ag := res.(*ast.Grammar)
	g := &gram.Grammar{}
	if ag.LexPart != nil && ag.LexPart.ProdList != nil {
		for _, lp := range ag.LexPart.ProdList.Productions {
			d := gram.LexDef{Name: lp.Id(), Pat: convPattern(lp.LexPattern())}
			switch lp.(type) {
			case *ast.LexTokDef:
				d.Kind = gram.DTok
			case *ast.LexIgnoredTokDef:
				d.Kind = gram.DIgn
			case *ast.LexRegDef:
				d.Kind = gram.DReg
			}
			g.Lex = append(g.Lex, d)
		}
	}
	if ag.SyntaxPart != nil {
		var cur *gram.NTDef
		for i, sp := range ag.SyntaxPart.ProdList {
			if i == 0 {
				continue // the augmented S'
			}
			if cur == nil || cur.Head != sp.Id {
				cur = &gram.NTDef{Head: sp.Id}
				g.NTs = append(g.NTs, cur)
			}
			var a gram.SAlt
			for k, s := range sp.Body.Symbols {
				name := s.SymbolString()
				switch s.(type) {
				case ast.SyntaxStringLit:
					a.Body = append(a.Body, gram.Sym{Kind: gram.SStr, Name: name})
				case ast.SyntaxProdId:
					a.Body = append(a.Body, gram.Sym{Kind: gram.SNT, Name: name})
				default:
					if name == "empty" && len(sp.Body.Symbols) == 1 {
						a.Empty = true
					} else if name == "error" && k == 0 {
						a.Err = true
					} else {
						a.Body = append(a.Body, gram.Sym{Kind: gram.STok, Name: name})
					}
				}
			}
			cur.Alts = append(cur.Alts, a)
		}
	}
	e.Grammar = g
	return
}

func main() {
	var out []entry
	for _, p := range os.Args[1:] {
		out = append(out, load(p))
	}
	json.NewEncoder(os.Stdout).Encode(out)
}
