module github.com/goccmack/gocc/verifx

go 1.24

require github.com/goccmack/gocc v0.0.0

replace github.com/goccmack/gocc => /repo
