package gram

import (
	"fmt"
	"math/rand"
	"strings"
	"unicode/utf8"
)

// FTok is one front-end token of a rendered grammar: its text and its front-end type
// (the alphabet of spec/gocc2.ebnf as the scanner produces it).
type FTok struct {
	Text string
	Type string // tokId regDefId ignoredTokId prodId char_lit string_lit g_sdt_lit : ; | . - [ ] { } ( )
}

// RenderOpts controls the spelling of one rendering of a grammar. The zero value is the
// canonical rendering.
type RenderOpts struct {
	R           *rand.Rand // source for all random choices (nil: canonical everywhere)
	RandLayout  bool       // random white space / comments between tokens
	RandLit     bool       // random but equivalent spelling of every character literal
	RandQuote   bool       // back-quoted string literals where the content allows it
	NoTrailingN bool       // do not end the file with a newline
}

// Tokens renders g as a front-end token list.
func (g *Grammar) Tokens(o *RenderOpts) []FTok {
	if o == nil {
		o = &RenderOpts{}
	}
	var out []FTok
	add := func(text, typ string) { out = append(out, FTok{text, typ}) }
	for _, d := range g.Lex {
		switch d.Kind {
		case DTok:
			add(d.Name, "tokId")
		case DIgn:
			add(d.Name, "ignoredTokId")
		case DReg:
			add(d.Name, "regDefId")
		}
		add(":", ":")
		out = append(out, patternTokens(d.Pat, o)...)
		add(";", ";")
	}
	if g.Header != "" {
		add("<< "+g.Header+" >>", "g_sdt_lit")
	}
	for _, nt := range g.NTs {
		add(nt.Head, "prodId")
		add(":", ":")
		for i, a := range nt.Alts {
			if i > 0 {
				add("|", "|")
			}
			if a.Empty {
				add("empty", "tokId")
			} else {
				if a.Err {
					add("error", "tokId")
				}
				for _, s := range a.Body {
					switch s.Kind {
					case SNT:
						add(s.Name, "prodId")
					case STok:
						add(s.Name, "tokId")
					case SStr:
						add(QuoteString(s.Name, o), "string_lit")
					}
				}
			}
			if txt, ok := ActionText(a.Act); ok {
				add("<< "+txt+" >>", "g_sdt_lit")
			}
		}
		add(";", ";")
	}
	return out
}

// ActionText gives the text between << and >> for an action.
func ActionText(a Action) (string, bool) {
	switch a.Kind {
	case ActNone:
		return "", false
	case ActRaw:
		return a.Raw, true
	case ActRec:
		return a.Raw, true // recorder actions are materialised into Raw by the generator
	}
	return "", false
}

func patternTokens(p *Pattern, o *RenderOpts) []FTok {
	var out []FTok
	for i, a := range p.Alts {
		if i > 0 {
			out = append(out, FTok{"|", "|"})
		}
		for _, t := range a.Terms {
			switch t.Kind {
			case TLit:
				out = append(out, FTok{SpellRune(t.Lo, o), "char_lit"})
			case TRange:
				out = append(out, FTok{SpellRune(t.Lo, o), "char_lit"}, FTok{"-", "-"}, FTok{SpellRune(t.Hi, o), "char_lit"})
			case TDot:
				out = append(out, FTok{".", "."})
			case TRef:
				out = append(out, FTok{t.Ref, "regDefId"})
			case TOpt:
				out = append(out, FTok{"[", "["})
				out = append(out, patternTokens(t.Sub, o)...)
				out = append(out, FTok{"]", "]"})
			case TRep:
				out = append(out, FTok{"{", "{"})
				out = append(out, patternTokens(t.Sub, o)...)
				out = append(out, FTok{"}", "}"})
			case TGroup:
				out = append(out, FTok{"(", "("})
				out = append(out, patternTokens(t.Sub, o)...)
				out = append(out, FTok{")", ")"})
			}
		}
	}
	return out
}

// Spellings returns every valid spelling of the character literal for r that the gocc
// scanner and Go both accept (documented escapes only).
func Spellings(r rune) []string {
	var out []string
	// raw UTF-8
	if r >= 0x20 && r != 0x7f && r != '\'' && r != '\\' && utf8.ValidRune(r) {
		out = append(out, "'"+string(r)+"'")
	}
	switch r {
	case '\a':
		out = append(out, `'\a'`)
	case '\b':
		out = append(out, `'\b'`)
	case '\f':
		out = append(out, `'\f'`)
	case '\n':
		out = append(out, `'\n'`)
	case '\r':
		out = append(out, `'\r'`)
	case '\t':
		out = append(out, `'\t'`)
	case '\v':
		out = append(out, `'\v'`)
	case '\\':
		out = append(out, `'\\'`)
	case '\'':
		out = append(out, `'\''`)
	}
	if r < 256 {
		out = append(out, fmt.Sprintf(`'\x%02x'`, r), fmt.Sprintf(`'\x%02X'`, r), fmt.Sprintf(`'\%03o'`, r))
	}
	if r < 0x10000 && utf8.ValidRune(r) {
		out = append(out, fmt.Sprintf(`'\u%04x'`, r), fmt.Sprintf(`'\u%04X'`, r))
	}
	if utf8.ValidRune(r) {
		out = append(out, fmt.Sprintf(`'\U%08x'`, r), fmt.Sprintf(`'\U%08X'`, r))
	}
	return out
}

// SpellRune picks one spelling: the first (canonical) one, or a random one with RandLit.
func SpellRune(r rune, o *RenderOpts) string {
	sp := Spellings(r)
	if len(sp) == 0 {
		panic(fmt.Sprintf("no spelling for rune %U", r))
	}
	if o != nil && o.RandLit && o.R != nil {
		return sp[o.R.Intn(len(sp))]
	}
	return sp[0]
}

// DoubleQuotable reports whether content can be written between double quotes so that the gocc
// scanner takes exactly content as the literal's text: no newline, every backslash followed by
// another character (the pair is skipped by the scanner), no bare double quote.
func DoubleQuotable(content string) bool {
	for i := 0; i < len(content); i++ {
		switch content[i] {
		case '\n', '"':
			return false
		case '\\':
			if i+1 >= len(content) || content[i+1] == '\n' {
				return false
			}
			i++
		}
	}
	return true
}

// QuoteString renders a string literal with the given raw content (gocc does no escape
// processing: the content is the text between the delimiters).
func QuoteString(content string, o *RenderOpts) string {
	canBack := !strings.ContainsAny(content, "`")
	canDouble := DoubleQuotable(content)
	if !canDouble && !canBack {
		return "\"" + content + "\""
	}
	if !canDouble {
		return "`" + content + "`"
	}
	if canBack && o != nil && o.RandQuote && o.R != nil && o.R.Intn(2) == 0 {
		return "`" + content + "`"
	}
	return "\"" + content + "\""
}

var commentWords = []string{"x", "note", "a b c", "<<", ">>", "'", "\"", "`", "|", ";", ":", "empty", "error", "T : t ;", "/", "*", "é", "\t"}

func randSeparator(r *rand.Rand, needSpace bool) string {
	var sb strings.Builder
	n := r.Intn(4)
	if needSpace && n == 0 {
		n = 1
	}
	for i := 0; i < n; i++ {
		if r.Intn(300) == 0 {
			// a physical line longer than 64 KiB (a pasted table in a comment)
			sb.WriteString(" //" + strings.Repeat("long comment ", 5200) + "\n")
			continue
		}
		switch r.Intn(9) {
		case 0, 1, 2:
			sb.WriteString(" ")
		case 3:
			sb.WriteString("\t")
		case 4:
			sb.WriteString("\n")
		case 5:
			sb.WriteString("\r\n")
		case 6:
			sb.WriteString("/*" + commentBody(r, true) + "*/")
		case 7:
			sb.WriteString(" //" + commentBody(r, false) + "\n")
		case 8:
			sb.WriteString("  ")
		}
	}
	return sb.String()
}

func commentBody(r *rand.Rand, block bool) string {
	if block {
		// degenerate block comments: empty, stars only, a slash right after the opening
		switch r.Intn(12) {
		case 0:
			return ""
		case 1:
			return "*"
		case 2:
			return "/ x "
		case 3:
			return "* x *"
		}
	} else if r.Intn(12) == 0 {
		return ""
	}
	var sb strings.Builder
	sb.WriteString(" ") // never start with "line " directly after //
	sb.WriteString("c")
	for i, n := 0, r.Intn(4); i < n; i++ {
		sb.WriteString(" ")
		sb.WriteString(commentWords[r.Intn(len(commentWords))])
		if block && r.Intn(4) == 0 {
			sb.WriteString("\n")
		}
	}
	s := sb.String()
	if block {
		s = strings.ReplaceAll(s, "*/", "* /")
		if strings.HasSuffix(s, "*") {
			s += " "
		}
	}
	return s
}

// Join lays a token list out as text.
func Join(toks []FTok, o *RenderOpts) string {
	var sb strings.Builder
	random := o != nil && o.RandLayout && o.R != nil
	if random {
		sb.WriteString(randSeparator(o.R, false))
	}
	for i, t := range toks {
		sb.WriteString(t.Text)
		last := i == len(toks)-1
		if random {
			// a separator is always needed between two identifier-like tokens; emitting at
			// least one everywhere keeps the token sequence independent of the layout.
			sb.WriteString(randSeparator(o.R, !last))
			continue
		}
		if last {
			break
		}
		if t.Type == ";" || t.Type == "g_sdt_lit" && toks[i+1].Type == "prodId" {
			sb.WriteString("\n")
		} else {
			sb.WriteString(" ")
		}
	}
	s := sb.String()
	if o == nil || !o.NoTrailingN {
		if !strings.HasSuffix(s, "\n") {
			s += "\n"
		}
	}
	return s
}

// Render is Join(Tokens()).
func (g *Grammar) Render(o *RenderOpts) string {
	return Join(g.Tokens(o), o)
}
