// Package gram is the harness's own grammar IR: the harness generates grammars in
// this form, renders them to gocc BNF text, and interprets them with the reference
// models. It never has to parse BNF to know what a grammar means.
package gram

import (
	"fmt"
	"sort"
	"strings"
)

// ---------- lexical part ----------

type TermKind int

const (
	TLit   TermKind = iota // single character literal  'a'
	TRange                 // 'a'-'z'
	TDot                   // .
	TRef                   // _regdef
	TOpt                   // [ pattern ]
	TRep                   // { pattern }
	TGroup                 // ( pattern )
)

type Term struct {
	Kind   TermKind
	Lo, Hi rune     // TLit: Lo ; TRange: Lo..Hi
	Ref    string   // TRef: regdef name including the leading '_'
	Sub    *Pattern // TOpt, TRep, TGroup
}

type Alt struct{ Terms []Term }

type Pattern struct{ Alts []Alt }

type DefKind int

const (
	DTok DefKind = iota // token
	DIgn                // !ignored token
	DReg                // _regular definition
)

type LexDef struct {
	Kind DefKind
	Name string // full spelling: "id", "!ws", "_digit"
	Pat  *Pattern
}

// ---------- syntax part ----------

type SymKind int

const (
	SNT  SymKind = iota // production name (upper-case first letter)
	STok                // named token (lower-case first letter)
	SStr                // string literal; Name is the raw content between the quotes
)

type Sym struct {
	Kind SymKind
	Name string
}

type ActKind int

const (
	ActNone ActKind = iota // no action text
	ActRec                 // << tr.R(C, <id>, args...) >>
	ActRaw                 // arbitrary action text (Raw)
)

type ArgRef struct {
	Idx   int  // $Idx
	AsTok bool // $TIdx
}

type Action struct {
	Kind   ActKind
	Args   []ArgRef
	UseCtx bool   // pass $Context as first argument (ActRec always does; kept for renderers)
	Raw    string // ActRaw: text between << and >>
}

// SAlt is one alternative of a production.
type SAlt struct {
	Body  []Sym // empty when Empty is true
	Empty bool  // written as the keyword: empty
	Err   bool  // body is preceded by the keyword: error
	Act   Action
}

type NTDef struct {
	Head string
	Alts []SAlt
}

type Grammar struct {
	Lex    []LexDef
	NTs    []*NTDef // NTs[0] is the start production; a head may appear in several NTDefs
	Header string   // text placed in the << >> file header (no delimiters)
}

// ---------- flattened view used by the models ----------

// FlatProd is one alternative, numbered as gocc numbers productions: index 0 is the
// augmented S' : Start, index i>0 is the i-th alternative in textual order.
type FlatProd struct {
	Index int
	Head  string
	Body  []Sym // for error alternatives Body[0] is the pseudo terminal {STok,"error"}
	Empty bool
	Err   bool
	Act   Action
}

func (g *Grammar) Flat() []FlatProd {
	if len(g.NTs) == 0 {
		return nil
	}
	out := []FlatProd{{Index: 0, Head: "S'", Body: []Sym{{SNT, g.NTs[0].Head}}}}
	for _, nt := range g.NTs {
		for _, a := range nt.Alts {
			fp := FlatProd{Index: len(out), Head: nt.Head, Empty: a.Empty, Err: a.Err, Act: a.Act}
			if a.Err {
				fp.Body = append(fp.Body, Sym{STok, "error"})
			}
			fp.Body = append(fp.Body, a.Body...)
			out = append(out, fp)
		}
	}
	return out
}

// Terminals returns the terminal names used in the syntax part in order of first use
// (string literals by content, named tokens by name), without the pseudo symbols.
func (g *Grammar) SyntaxTerminals() []Sym {
	seen := map[string]bool{}
	var out []Sym
	for _, nt := range g.NTs {
		for _, a := range nt.Alts {
			for _, s := range a.Body {
				if s.Kind == SNT {
					continue
				}
				if !seen[s.Name] {
					seen[s.Name] = true
					out = append(out, s)
				}
			}
		}
	}
	return out
}

// AllTerminals: syntax terminals plus the tokens declared in the lexical part (sorted, as gocc appends them).
func (g *Grammar) AllTerminalNames() []string {
	seen := map[string]bool{}
	var out []string
	for _, s := range g.SyntaxTerminals() {
		seen[s.Name] = true
		out = append(out, s.Name)
	}
	var rest []string
	for _, d := range g.Lex {
		if d.Kind == DTok && !seen[d.Name] {
			seen[d.Name] = true
			rest = append(rest, d.Name)
		}
	}
	sort.Strings(rest)
	return append(out, rest...)
}

func (g *Grammar) HasErrorAlts() bool {
	for _, nt := range g.NTs {
		for _, a := range nt.Alts {
			if a.Err {
				return true
			}
		}
	}
	return false
}

func (g *Grammar) Heads() []string {
	seen := map[string]bool{}
	var out []string
	for _, nt := range g.NTs {
		if !seen[nt.Head] {
			seen[nt.Head] = true
			out = append(out, nt.Head)
		}
	}
	return out
}

func (g *Grammar) LexDefByName(name string) *LexDef {
	for i := range g.Lex {
		if g.Lex[i].Name == name {
			return &g.Lex[i]
		}
	}
	return nil
}

// Clone makes a deep copy.
func (g *Grammar) Clone() *Grammar {
	ng := &Grammar{Header: g.Header}
	for _, d := range g.Lex {
		ng.Lex = append(ng.Lex, LexDef{Kind: d.Kind, Name: d.Name, Pat: d.Pat.Clone()})
	}
	for _, nt := range g.NTs {
		n := &NTDef{Head: nt.Head}
		for _, a := range nt.Alts {
			na := SAlt{Empty: a.Empty, Err: a.Err, Act: a.Act}
			na.Body = append([]Sym(nil), a.Body...)
			na.Act.Args = append([]ArgRef(nil), a.Act.Args...)
			n.Alts = append(n.Alts, na)
		}
		ng.NTs = append(ng.NTs, n)
	}
	return ng
}

func (p *Pattern) Clone() *Pattern {
	if p == nil {
		return nil
	}
	np := &Pattern{}
	for _, a := range p.Alts {
		na := Alt{}
		for _, t := range a.Terms {
			nt := t
			nt.Sub = t.Sub.Clone()
			na.Terms = append(na.Terms, nt)
		}
		np.Alts = append(np.Alts, na)
	}
	return np
}

// Size counts the nodes of a pattern (terms, recursively).
func (p *Pattern) Size() int {
	n := 0
	for _, a := range p.Alts {
		for _, t := range a.Terms {
			n++
			if t.Sub != nil {
				n += t.Sub.Size()
			}
		}
	}
	return n
}

// Convenience constructors.
func Lit(r rune) Term            { return Term{Kind: TLit, Lo: r, Hi: r} }
func Rng(lo, hi rune) Term       { return Term{Kind: TRange, Lo: lo, Hi: hi} }
func Dot() Term                  { return Term{Kind: TDot} }
func Ref(name string) Term       { return Term{Kind: TRef, Ref: name} }
func Opt(p *Pattern) Term        { return Term{Kind: TOpt, Sub: p} }
func Rep(p *Pattern) Term        { return Term{Kind: TRep, Sub: p} }
func Group(p *Pattern) Term      { return Term{Kind: TGroup, Sub: p} }
func Seq(ts ...Term) *Pattern    { return &Pattern{Alts: []Alt{{Terms: ts}}} }
func Alts(as ...[]Term) *Pattern { p := &Pattern{}; for _, a := range as { p.Alts = append(p.Alts, Alt{Terms: a}) }; return p }

func StrPattern(s string) *Pattern {
	var ts []Term
	for _, r := range s {
		ts = append(ts, Lit(r))
	}
	return Seq(ts...)
}

// String gives a compact debugging form (not gocc syntax).
func (p *Pattern) String() string {
	var alts []string
	for _, a := range p.Alts {
		var ts []string
		for _, t := range a.Terms {
			switch t.Kind {
			case TLit:
				ts = append(ts, fmt.Sprintf("%q", t.Lo))
			case TRange:
				ts = append(ts, fmt.Sprintf("%q-%q", t.Lo, t.Hi))
			case TDot:
				ts = append(ts, ".")
			case TRef:
				ts = append(ts, t.Ref)
			case TOpt:
				ts = append(ts, "["+t.Sub.String()+"]")
			case TRep:
				ts = append(ts, "{"+t.Sub.String()+"}")
			case TGroup:
				ts = append(ts, "("+t.Sub.String()+")")
			}
		}
		alts = append(alts, strings.Join(ts, " "))
	}
	return strings.Join(alts, " | ")
}
