package gram

import (
	"fmt"
	"math/rand"
	"strings"
)

// ---------- random syntax parts ----------

var tokNames = []string{"a", "b", "c", "d", "g", "k", "m", "p"}
var strLits = []string{"+", "*", "-", "(", ")", ";", ",", "=", "[", "]", "if", "else", "then", "while", "<", "!"}

type SynGenOpts struct {
	Family     string // "" = random choice
	WithErrors bool   // add error-first alternatives
	Ambiguous  bool   // inject ambiguity (conflicts)
	NoStrLits  bool   // named tokens only (needed for -no_lexer round trips that feed by name anyway)
}

type synGen struct {
	r     *rand.Rand
	o     SynGenOpts
	terms []Sym
}

func (s *synGen) pickTerminals(n int) {
	seen := map[string]bool{}
	for len(s.terms) < n {
		var t Sym
		if !s.o.NoStrLits && s.r.Intn(2) == 0 {
			t = Sym{SStr, strLits[s.r.Intn(len(strLits))]}
		} else {
			t = Sym{STok, tokNames[s.r.Intn(len(tokNames))]}
		}
		if !seen[t.Name] {
			seen[t.Name] = true
			s.terms = append(s.terms, t)
		}
	}
}

func (s *synGen) term() Sym { return s.terms[s.r.Intn(len(s.terms))] }

func nt(name string) Sym     { return Sym{SNT, name} }
func alt(syms ...Sym) SAlt   { return SAlt{Body: syms} }
func emptyAlt() SAlt         { return SAlt{Empty: true} }
func errAlt(syms ...Sym) SAlt { return SAlt{Err: true, Body: syms} }

// Families is the list of template families GenSyntax knows.
var Families = []string{"expr", "list", "stmts", "brackets", "random", "lr1notlalr", "nullable", "long", "random", "random", "nulllist", "nulllist", "nulltails", "lr2", "wide", "firstchain", "errorder", "optafter", "errdeep", "deadnt", "lafirst"}

// BoundaryFamilies are shapes near the LR(1) boundary (used on top of Families by C04).
var BoundaryFamilies = []string{"lr1notlalr", "cyclic", "rr1la", "nullconflict", "nullable", "random", "expr", "nulltails", "nulllist", "lr2", "lafirst", "lafirst", "splitrr"}

// GenSyntax builds a random syntax part (no actions, no lexical part).
func GenSyntax(r *rand.Rand, o SynGenOpts) *Grammar {
	s := &synGen{r: r, o: o}
	fam := o.Family
	if fam == "" {
		fam = Families[r.Intn(len(Families))]
	}
	var g *Grammar
	switch fam {
	case "expr":
		g = s.expr()
	case "list":
		g = s.list()
	case "stmts":
		g = s.stmts()
	case "brackets":
		g = s.brackets()
	case "lr1notlalr":
		g = s.lr1NotLalr()
	case "nullable":
		g = s.nullablePrefix()
	case "long":
		g = s.long()
	case "nulllist":
		g = s.nullList()
	case "nulltails":
		g = s.nullTails()
	case "lr2":
		g = s.lr2()
	case "firstchain":
		g = s.firstChain()
	case "errorder":
		g = s.errOrder()
	case "optafter":
		g = s.optAfter()
	case "errdeep":
		g = s.errDeep()
	case "deadnt":
		g = s.deadNT()
	case "lafirst":
		g = s.laFirst()
	case "manyterms":
		g = s.manyTerms()
	case "splitrr":
		g = s.splitRR()
	case "longkeyed":
		g = s.longKeyed()
	case "lasubset":
		g = s.laSubset()
	case "rrwide":
		g = s.rrWide()
	case "wide":
		g = s.wide()
	case "cyclic":
		g = s.cyclic()
	case "rr1la":
		g = s.rrOneLookahead()
	case "nullconflict":
		g = s.nullConflict()
	default:
		g = s.random()
	}
	if o.Ambiguous {
		s.injectAmbiguity(g)
	}
	if s.r.Intn(4) == 0 {
		splitHeads(s.r, g)
	}
	// safety net: an alternative without symbols is written 'empty' (or is 'error' alone)
	for _, d := range g.NTs {
		for i := range d.Alts {
			if a := &d.Alts[i]; len(a.Body) == 0 && !a.Err {
				a.Empty = true
			}
		}
	}
	if o.WithErrors && !g.HasErrorAlts() {
		s.injectErrors(g) // families that place their error alternatives themselves keep exactly those
	}
	return g
}

func (s *synGen) expr() *Grammar {
	s.pickTerminals(6)
	levels := 1 + s.r.Intn(3)
	g := &Grammar{}
	ops := s.terms[:levels]
	atomToks := s.terms[levels:]
	name := func(i int) string { return fmt.Sprintf("E%d", i) }
	for i := 0; i < levels; i++ {
		d := &NTDef{Head: name(i)}
		next := name(i + 1)
		if s.r.Intn(2) == 0 {
			d.Alts = append(d.Alts, alt(nt(name(i)), ops[i], nt(next))) // left assoc
		} else {
			d.Alts = append(d.Alts, alt(nt(next), ops[i], nt(name(i)))) // right assoc
		}
		d.Alts = append(d.Alts, alt(nt(next)))
		if s.r.Intn(2) == 0 {
			d.Alts[0], d.Alts[1] = d.Alts[1], d.Alts[0]
		}
		g.NTs = append(g.NTs, d)
	}
	at := &NTDef{Head: name(levels)}
	at.Alts = append(at.Alts, alt(atomToks[0]))
	if s.r.Intn(2) == 0 {
		at.Alts = append(at.Alts, alt(atomToks[1], nt(name(0)), atomToks[2])) // bracketed
	}
	if s.r.Intn(3) == 0 {
		at.Alts = append(at.Alts, alt(atomToks[1], nt(name(levels)))) // prefix operator
	}
	g.NTs = append(g.NTs, at)
	return g
}

func (s *synGen) list() *Grammar {
	s.pickTerminals(4)
	g := &Grammar{}
	item, sep, open, cl := s.terms[0], s.terms[1], s.terms[2], s.terms[3]
	l := &NTDef{Head: "L"}
	useSep := s.r.Intn(2) == 0
	left := s.r.Intn(2) == 0
	empty := s.r.Intn(2) == 0
	if empty && !useSep {
		l.Alts = append(l.Alts, emptyAlt())
	} else {
		l.Alts = append(l.Alts, alt(nt("I")))
	}
	var rec []Sym
	if left {
		rec = []Sym{nt("L")}
		if useSep {
			rec = append(rec, sep)
		}
		rec = append(rec, nt("I"))
	} else {
		rec = []Sym{nt("I")}
		if useSep {
			rec = append(rec, sep)
		}
		rec = append(rec, nt("L"))
	}
	l.Alts = append(l.Alts, alt(rec...))
	if s.r.Intn(2) == 0 {
		l.Alts[0], l.Alts[1] = l.Alts[1], l.Alts[0]
	}
	i := &NTDef{Head: "I", Alts: []SAlt{alt(item)}}
	if s.r.Intn(2) == 0 {
		i.Alts = append(i.Alts, alt(open, nt("L"), cl))
	}
	top := &NTDef{Head: "S", Alts: []SAlt{alt(nt("L"))}}
	if empty && useSep {
		top.Alts = append(top.Alts, emptyAlt())
	}
	g.NTs = []*NTDef{top, l, i}
	return g
}

func (s *synGen) stmts() *Grammar {
	s.pickTerminals(7)
	t := s.terms
	g := &Grammar{}
	prog := &NTDef{Head: "Prog", Alts: []SAlt{alt(nt("Stmts"))}}
	var stmts *NTDef
	if s.r.Intn(2) == 0 {
		stmts = &NTDef{Head: "Stmts", Alts: []SAlt{alt(nt("Stmt")), alt(nt("Stmts"), nt("Stmt"))}}
	} else {
		stmts = &NTDef{Head: "Stmts", Alts: []SAlt{emptyAlt(), alt(nt("Stmts"), nt("Stmt"))}}
	}
	stmt := &NTDef{Head: "Stmt"}
	stmt.Alts = append(stmt.Alts, alt(t[0], t[1], nt("Ex"), t[2]))             // id = Ex ;
	stmt.Alts = append(stmt.Alts, alt(t[3], nt("Ex"), t[4], nt("Stmt")))       // if Ex then Stmt
	if s.r.Intn(2) == 0 {
		stmt.Alts = append(stmt.Alts, alt(t[5], nt("Stmts"), t[6])) // { Stmts }
	}
	ex := &NTDef{Head: "Ex", Alts: []SAlt{alt(t[0]), alt(nt("Ex"), t[5], t[0])}}
	g.NTs = []*NTDef{prog, stmts, stmt, ex}
	return g
}

func (s *synGen) brackets() *Grammar {
	s.pickTerminals(5)
	t := s.terms
	d := &NTDef{Head: "S"}
	d.Alts = append(d.Alts, alt(t[0], nt("S"), t[1]))
	if s.r.Intn(2) == 0 {
		d.Alts = append(d.Alts, alt(t[2], nt("S"), t[3]))
	}
	switch s.r.Intn(3) {
	case 0:
		d.Alts = append(d.Alts, emptyAlt())
	case 1:
		d.Alts = append(d.Alts, alt(t[4]))
	case 2:
		d.Alts = append(d.Alts, alt(t[4]), emptyAlt())
	}
	s.r.Shuffle(len(d.Alts), func(i, j int) { d.Alts[i], d.Alts[j] = d.Alts[j], d.Alts[i] })
	return &Grammar{NTs: []*NTDef{d}}
}

func (s *synGen) lr1NotLalr() *Grammar {
	s.pickTerminals(5)
	t := s.terms
	top := &NTDef{Head: "S", Alts: []SAlt{
		alt(t[0], nt("A"), t[3]), alt(t[1], nt("B"), t[3]), alt(t[0], nt("B"), t[4]), alt(t[1], nt("A"), t[4])}}
	s.r.Shuffle(len(top.Alts), func(i, j int) { top.Alts[i], top.Alts[j] = top.Alts[j], top.Alts[i] })
	a := &NTDef{Head: "A", Alts: []SAlt{alt(t[2])}}
	b := &NTDef{Head: "B", Alts: []SAlt{alt(t[2])}}
	return &Grammar{NTs: []*NTDef{top, a, b}}
}

// rrWide: a reduce/reduce conflict among productions whose numbers straddle 9/10 (one and two
// digits): "the earliest production" is a comparison of numbers, not of their spellings.
func (s *synGen) rrWide() *Grammar {
	s.pickTerminals(4)
	t := s.terms
	n := 5 + s.r.Intn(4)
	top := &NTDef{Head: "S"}
	g := &Grammar{NTs: []*NTDef{top}}
	for i := 0; i < n; i++ {
		h := fmt.Sprintf("N%d", i)
		tail := t[1]
		if i%3 == 2 {
			tail = t[2]
		}
		top.Alts = append(top.Alts, alt(nt(h), tail))
		g.NTs = append(g.NTs, &NTDef{Head: h, Alts: []SAlt{alt(t[0])}})
	}
	if s.r.Intn(2) == 0 {
		top.Alts = append(top.Alts, alt(t[3], nt("S")))
	}
	return g
}

// laSubset: the same nonterminal in two contexts, the look-aheads of one a strict subset of
// the other's (a construction that merges states by their kernel cores when the look-aheads
// of one contain the other's reports errors late and expects too much in the narrow context).
func (s *synGen) laSubset() *Grammar {
	s.pickTerminals(6)
	t := s.terms
	wide := []SAlt{alt(nt("X"), t[0]), alt(nt("X"), t[1])}
	narrow := alt(t[2], nt("X"), t[0])
	if s.r.Intn(3) == 0 {
		wide = append(wide, alt(nt("X"), t[4]))
	}
	top := &NTDef{Head: "S"}
	if s.r.Intn(2) == 0 {
		top.Alts = append(append([]SAlt{}, wide...), narrow)
	} else {
		top.Alts = append([]SAlt{narrow}, wide...)
	}
	x := &NTDef{Head: "X", Alts: []SAlt{alt(t[3])}}
	switch s.r.Intn(3) {
	case 0:
		x.Alts = append(x.Alts, alt(t[3], t[5]))
	case 1:
		x.Alts = []SAlt{alt(t[3], nt("Y"))}
	}
	g := &Grammar{NTs: []*NTDef{top, x}}
	for _, a := range x.Alts {
		for _, sy := range a.Body {
			if sy.Kind == SNT && sy.Name == "Y" {
				g.NTs = append(g.NTs, &NTDef{Head: "Y", Alts: []SAlt{alt(t[5]), alt(t[5], t[5])}})
			}
		}
	}
	return g
}

func (s *synGen) nullablePrefix() *Grammar {
	s.pickTerminals(4)
	t := s.terms
	top := &NTDef{Head: "S", Alts: []SAlt{alt(nt("A"), nt("B"), t[2])}}
	if s.r.Intn(2) == 0 {
		top.Alts = append(top.Alts, alt(nt("B"), nt("A"), t[3]))
	}
	a := &NTDef{Head: "A", Alts: []SAlt{emptyAlt(), alt(t[0])}}
	b := &NTDef{Head: "B", Alts: []SAlt{emptyAlt(), alt(t[1], nt("B"))}}
	if s.r.Intn(2) == 0 {
		a.Alts[0], a.Alts[1] = a.Alts[1], a.Alts[0]
	}
	return &Grammar{NTs: []*NTDef{top, a, b}}
}

// nullList: nullable recursive lists placed right after a nonterminal (the look-aheads of
// that nonterminal's reductions are FIRST of the list), in left- and right-recursive forms,
// with terminal or nonterminal elements, optionally followed by more symbols.
func (s *synGen) nullList() *Grammar {
	s.pickTerminals(5)
	t := s.terms
	g := &Grammar{}
	top := &NTDef{Head: "U"}
	body := []Sym{nt("H"), nt("L")}
	switch s.r.Intn(6) {
	case 0:
		body = append(body, t[3])
	case 1:
		body = append(body, nt("T"))
	case 2: // two more symbols behind the nullable list: the look-ahead string has four symbols
		body = append(body, t[3], t[4])
	case 3:
		body = append(body, t[3], t[4], t[3])
	}
	top.Alts = append(top.Alts, alt(body...))
	if s.r.Intn(3) == 0 {
		top.Alts = append(top.Alts, alt(nt("L"), t[4]))
	}
	h := &NTDef{Head: "H", Alts: []SAlt{alt(t[0])}}
	if s.r.Intn(2) == 0 {
		h.Alts = append(h.Alts, alt(t[0], nt("H")))
	}
	l := &NTDef{Head: "L"}
	elem := []Sym{t[1]}
	switch s.r.Intn(3) {
	case 0:
		elem = []Sym{t[1], t[2]}
	case 1:
		elem = []Sym{nt("E")}
	}
	if s.r.Intn(3) > 0 {
		l.Alts = append(l.Alts, alt(append([]Sym{nt("L")}, elem...)...)) // left recursive
	} else {
		l.Alts = append(l.Alts, alt(append(append([]Sym{}, elem...), nt("L"))...)) // right recursive
	}
	var viaNT []*NTDef
	switch s.r.Intn(4) {
	case 0: // nullable only through another nonterminal
		l.Alts = append(l.Alts, alt(nt("M")))
		viaNT = []*NTDef{{Head: "M", Alts: []SAlt{emptyAlt()}}}
	case 1: // ... through a chain of two
		l.Alts = append(l.Alts, alt(nt("M")))
		viaNT = []*NTDef{{Head: "M", Alts: []SAlt{alt(nt("N"))}}, {Head: "N", Alts: []SAlt{emptyAlt()}}}
	default:
		l.Alts = append(l.Alts, emptyAlt())
	}
	if s.r.Intn(2) == 0 {
		l.Alts[0], l.Alts[1] = l.Alts[1], l.Alts[0]
	}
	g.NTs = append([]*NTDef{top, h, l}, viaNT...)
	for _, a := range top.Alts {
		for _, sy := range a.Body {
			if sy.Kind == SNT && sy.Name == "T" {
				g.NTs = append(g.NTs, &NTDef{Head: "T", Alts: []SAlt{alt(t[3]), emptyAlt()}})
			}
		}
	}
	if elem[0].Kind == SNT {
		g.NTs = append(g.NTs, &NTDef{Head: "E", Alts: []SAlt{alt(t[1]), alt(t[2], nt("E"))}})
	}
	return g
}

// firstChain: nonterminals whose FIRST sets depend on nonterminals declared LATER, several
// levels deep and with overlapping terminals, so that the FIRST fixed point needs many passes
// and a pass may add only some new terminals to a set that already holds others; the sets feed
// look-aheads through a nonterminal that precedes the chain in some body.
func (s *synGen) firstChain() *Grammar {
	s.pickTerminals(6)
	t := s.terms
	depth := 2 + s.r.Intn(3)
	name := func(i int) string { return fmt.Sprintf("N%d", i) }
	g := &Grammar{}
	top := &NTDef{Head: "Top", Alts: []SAlt{alt(nt("Z"), nt("W")), alt(t[5], nt("Top"))}}
	w := &NTDef{Head: "W", Alts: []SAlt{alt(nt(name(0)), t[4])}}
	z := &NTDef{Head: "Z", Alts: []SAlt{alt(t[3])}}
	g.NTs = []*NTDef{top, w, z}
	for i := 0; i < depth; i++ {
		d := &NTDef{Head: name(i)}
		if i+1 < depth {
			d.Alts = append(d.Alts, alt(nt(name(i+1))))
		} else {
			d.Alts = append(d.Alts, alt(t[s.r.Intn(3)], t[3]))
		}
		// a terminal alternative overlapping with what the deeper levels contribute
		d.Alts = append(d.Alts, alt(t[s.r.Intn(3)], t[s.r.Intn(3)]))
		if s.r.Intn(3) == 0 && i+1 < depth {
			d.Alts = append(d.Alts, alt(nt(name(depth-1)), t[4]))
		}
		g.NTs = append(g.NTs, d)
	}
	return g
}

// optAfter: a nullable nonterminal directly after a nonterminal whose body has two or more
// symbols (what the parser popped last is still lying above the stack top when the empty
// alternative is reduced), also in the middle and at the end of bodies and inside lists.
func (s *synGen) optAfter() *Grammar {
	s.pickTerminals(6)
	t := s.terms
	g := &Grammar{NTs: []*NTDef{
		{Head: "S", Alts: []SAlt{alt(nt("Pair"), nt("Opt"), t[2]), alt(t[3], nt("Pair"), nt("Opt")), alt(t[2], nt("Pair"), nt("Opt"), t[5], t[2], t[5])}},
		{Head: "Pair", Alts: []SAlt{alt(t[0], t[1])}},
		{Head: "Opt", Alts: []SAlt{alt(t[4]), emptyAlt()}},
	}}
	if s.r.Intn(2) == 0 {
		g.NTs[1].Alts = append(g.NTs[1].Alts, alt(t[0], t[1], t[1]))
	}
	if s.r.Intn(2) == 0 {
		g.NTs[0].Alts = append(g.NTs[0].Alts, alt(t[5], nt("S"), nt("Opt"), t[5]))
	}
	if s.r.Intn(2) == 0 {
		g.NTs[2].Alts[0], g.NTs[2].Alts[1] = g.NTs[2].Alts[1], g.NTs[2].Alts[0]
	}
	return g
}

// splitHeads writes the alternatives of one or two nonterminals as two separate production
// blocks with another nonterminal's block in between (gocc allows a head to be defined in
// several places; productions are numbered in textual order).
func splitHeads(r *rand.Rand, g *Grammar) {
	if len(g.NTs) < 2 {
		return
	}
	for n := 1 + r.Intn(2); n > 0; n-- {
		i := r.Intn(len(g.NTs))
		d := g.NTs[i]
		if len(d.Alts) < 2 {
			continue
		}
		k := 1 + r.Intn(len(d.Alts)-1)
		tail := &NTDef{Head: d.Head, Alts: append([]SAlt(nil), d.Alts[k:]...)}
		if i == 0 && r.Intn(2) == 0 {
			// keep the start production first, move the tail of its alternatives behind everything
			d.Alts = d.Alts[:k]
			g.NTs = append(g.NTs, tail)
			continue
		}
		d.Alts = d.Alts[:k]
		// place the second block after at least one other block
		at := i + 2 + r.Intn(len(g.NTs)-i)
		if at > len(g.NTs) {
			at = len(g.NTs)
		}
		if at <= i+1 {
			at = len(g.NTs)
		}
		g.NTs = append(g.NTs[:at:at], append([]*NTDef{tail}, g.NTs[at:]...)...)
	}
}

// splitRR: a reduce/reduce conflict between a production of the second block of a head that is
// defined in two places and a production declared between the two blocks: "earliest declared"
// is decided by the text, not by how productions are grouped.
func (s *synGen) splitRR() *Grammar {
	s.pickTerminals(6)
	t := s.terms
	shared := []Sym{t[1]}
	if s.r.Intn(3) == 0 {
		shared = []Sym{t[1], t[4]}
	}
	top := &NTDef{Head: "S", Alts: []SAlt{alt(nt("A"), t[2], t[2]), alt(nt("B"), t[2], t[3])}}
	if s.r.Intn(2) == 0 {
		top.Alts[0], top.Alts[1] = top.Alts[1], top.Alts[0]
	}
	a1 := &NTDef{Head: "A", Alts: []SAlt{alt(t[0])}}
	b := &NTDef{Head: "B", Alts: []SAlt{alt(shared...)}}
	a2 := &NTDef{Head: "A", Alts: []SAlt{alt(shared...)}}
	if s.r.Intn(3) == 0 {
		b.Alts = append([]SAlt{alt(t[5])}, b.Alts...)
	}
	if s.r.Intn(3) == 0 {
		a2.Alts = append(a2.Alts, alt(t[5], t[0]))
	}
	g := &Grammar{NTs: []*NTDef{top, a1, b, a2}}
	if s.r.Intn(3) == 0 {
		// a third head between the blocks as well
		g.NTs = []*NTDef{top, a1, {Head: "C", Alts: []SAlt{alt(t[4], t[4])}}, b, a2}
		top.Alts = append(top.Alts, alt(nt("C")))
	}
	return g
}

// manyTerms: more than 256 terminals (token types beyond one byte), otherwise trivial.
func (s *synGen) manyTerms() *Grammar {
	n := 258 + s.r.Intn(60)
	item := &NTDef{Head: "Item"}
	for i := 0; i < n; i++ {
		item.Alts = append(item.Alts, alt(Sym{STok, fmt.Sprintf("k%d", i)}))
	}
	// two-token alternatives with the late terminals, so that they matter as look-aheads too
	item.Alts = append(item.Alts, alt(Sym{STok, fmt.Sprintf("k%d", n-1)}, Sym{STok, fmt.Sprintf("k%d", n-2)}))
	sep := Sym{SStr, ";"}
	s.terms = []Sym{{STok, "k0"}, {STok, "k1"}, {STok, fmt.Sprintf("k%d", n-1)}, sep} // for the generic post-processing
	return &Grammar{NTs: []*NTDef{
		{Head: "S", Alts: []SAlt{alt(nt("Item")), alt(nt("S"), sep, nt("Item"))}},
		item,
	}}
}

// laFirst: whether two reductions of the same handle compete depends on a look-ahead that comes
// only from FIRST of a (directly or indirectly) nullable list that follows: S : P L | Q L z.
func (s *synGen) laFirst() *Grammar {
	s.pickTerminals(6)
	t := s.terms
	l := &NTDef{Head: "L"}
	elem := []Sym{t[1]}
	if s.r.Intn(3) == 0 {
		elem = []Sym{t[1], t[2]}
	}
	if s.r.Intn(4) > 0 {
		l.Alts = append(l.Alts, alt(append([]Sym{nt("L")}, elem...)...))
	} else {
		l.Alts = append(l.Alts, alt(append(append([]Sym{}, elem...), nt("L"))...))
	}
	var via []*NTDef
	switch s.r.Intn(3) {
	case 0:
		l.Alts = append(l.Alts, emptyAlt())
	case 1:
		l.Alts = append(l.Alts, alt(nt("M")))
		via = []*NTDef{{Head: "M", Alts: []SAlt{emptyAlt()}}}
	default:
		l.Alts = append(l.Alts, alt(nt("M")))
		via = []*NTDef{{Head: "M", Alts: []SAlt{alt(nt("N")), alt(t[5])}}, {Head: "N", Alts: []SAlt{emptyAlt()}}}
	}
	if s.r.Intn(2) == 0 {
		l.Alts[0], l.Alts[1] = l.Alts[1], l.Alts[0]
	}
	pBody, qBody := []Sym{t[0]}, []Sym{t[0]}
	switch s.r.Intn(4) {
	case 0:
		qBody = []Sym{t[4]} // distinct handles: never a conflict
	case 1:
		pBody, qBody = []Sym{t[0], t[4]}, []Sym{t[0], t[4]}
	}
	top := &NTDef{Head: "S"}
	first := []Sym{nt("P"), nt("L")}
	if s.r.Intn(3) == 0 {
		first = append(first, t[2])
	}
	second := []Sym{nt("Q"), nt("L"), t[3]}
	if s.r.Intn(4) == 0 {
		second = []Sym{nt("Q"), t[3], nt("L")} // the terminal tells them apart before the list
	}
	top.Alts = []SAlt{alt(first...), alt(second...)}
	g := &Grammar{NTs: []*NTDef{top, {Head: "P", Alts: []SAlt{alt(pBody...)}}, {Head: "Q", Alts: []SAlt{alt(qBody...)}}, l}}
	g.NTs = append(g.NTs, via...)
	if s.r.Intn(2) == 0 {
		// the list defined before its users
		g.NTs = append([]*NTDef{g.NTs[0]}, append(append([]*NTDef{l}, via...), g.NTs[1:3]...)...)
	}
	return g
}

// deadNT: a nonterminal that derives no terminal string (an unfinished rule) declared early,
// reachable or not, with further nonterminals declared after it.
func (s *synGen) deadNT() *Grammar {
	s.pickTerminals(5)
	t := s.terms
	g := &Grammar{NTs: []*NTDef{
		{Head: "P", Alts: []SAlt{alt(nt("Asg")), alt(nt("P"), t[0], nt("Asg"))}},
		{Head: "Loop", Alts: []SAlt{alt(nt("Loop"), t[1])}},
		{Head: "Asg", Alts: []SAlt{alt(nt("Lhs"), t[2], nt("Rhs"))}},
		{Head: "Lhs", Alts: []SAlt{alt(t[3])}},
		{Head: "Rhs", Alts: []SAlt{alt(t[3]), alt(t[4]), alt(nt("Rhs"), t[1], t[4])}},
	}}
	if s.r.Intn(2) == 0 {
		// reachable through an alternative that can never be completed
		g.NTs[2].Alts = append(g.NTs[2].Alts, alt(t[1], nt("Loop")))
	}
	if s.r.Intn(2) == 0 {
		g.NTs[1], g.NTs[2] = g.NTs[2], g.NTs[1]
	}
	return g
}

// errDeep: the error alternatives are only reachable after some tokens have been shifted, so
// the start state (and the states of the opening tokens) cannot recover, while deeper ones can.
func (s *synGen) errDeep() *Grammar {
	s.pickTerminals(6)
	t := s.terms
	g := &Grammar{NTs: []*NTDef{
		{Head: "U", Alts: []SAlt{alt(t[0], t[1], nt("L"), t[2]), alt(t[3], nt("U"))}},
		{Head: "L", Alts: []SAlt{alt(nt("I")), alt(nt("L"), nt("I"))}},
		{Head: "I", Alts: []SAlt{alt(t[4], t[5]), errAlt(t[5])}},
	}}
	if s.r.Intn(2) == 0 {
		g.NTs[2].Alts = append(g.NTs[2].Alts, alt(t[1], nt("L"), t[2]))
	}
	if s.r.Intn(3) == 0 {
		g.NTs[2].Alts[1] = errAlt()
	}
	return g
}

// errOrder: error alternatives followed by a nonterminal, with the nonterminals defined in an
// order different from the order of their first mention (symbol numbering follows first
// mention, tables follow definition order).
func (s *synGen) errOrder() *Grammar {
	s.pickTerminals(4)
	t := s.terms
	stmts := &NTDef{Head: "Stmts", Alts: []SAlt{alt(nt("Stmt")), alt(nt("Stmts"), nt("Stmt")), errAlt(nt("Sep"))}}
	sep := &NTDef{Head: "Sep", Alts: []SAlt{alt(t[0])}}
	stmt := &NTDef{Head: "Stmt", Alts: []SAlt{alt(t[1], nt("Sep"))}}
	if s.r.Intn(2) == 0 {
		stmt.Alts = append(stmt.Alts, alt(t[2], t[1], nt("Sep")))
	}
	if s.r.Intn(2) == 0 {
		stmt.Alts = append(stmt.Alts, errAlt(t[3]))
	}
	g := &Grammar{NTs: []*NTDef{stmts, sep, stmt}}
	if s.r.Intn(3) == 0 {
		g.NTs = []*NTDef{stmts, stmt, sep}
	}
	return g
}

// lr2: unambiguous grammars that need two tokens of look-ahead: a shift/reduce conflict in
// LR(1) whose resolution in favour of the shift loses sentences.
func (s *synGen) lr2() *Grammar {
	s.pickTerminals(4)
	t := s.terms
	g := &Grammar{NTs: []*NTDef{
		{Head: "S", Alts: []SAlt{alt(nt("A"), t[1], t[2]), alt(t[0], t[1], t[3])}},
		{Head: "A", Alts: []SAlt{alt(t[0])}},
	}}
	if s.r.Intn(2) == 0 {
		g.NTs[0].Alts[0], g.NTs[0].Alts[1] = g.NTs[0].Alts[1], g.NTs[0].Alts[0]
	}
	if s.r.Intn(2) == 0 {
		g.NTs[0].Alts = append(g.NTs[0].Alts, alt(t[3], nt("S")))
	}
	return g
}

// wide: statement-like alternatives that each start with a different terminal, so that one
// state expects many terminals at once (long expected-token lists).
func (s *synGen) wide() *Grammar {
	s.pickTerminals(7)
	t := s.terms
	st := &NTDef{Head: "St"}
	n := 4 + s.r.Intn(3)
	for i := 0; i < n; i++ {
		body := []Sym{t[i]}
		if s.r.Intn(2) == 0 {
			body = append(body, t[(i+1)%len(t)])
		}
		st.Alts = append(st.Alts, alt(body...))
	}
	list := &NTDef{Head: "Ls", Alts: []SAlt{alt(nt("St")), alt(nt("Ls"), nt("St"))}}
	if s.r.Intn(2) == 0 {
		list.Alts[0] = emptyAlt()
	}
	return &Grammar{NTs: []*NTDef{{Head: "P", Alts: []SAlt{alt(nt("Ls"))}}, list, st}}
}

// nullTails: two nonterminals deriving the same terminal meet as complete items in one
// state; each is followed, up to the end of its body, by a nullable tail, and their real
// look-aheads are disjoint (LR(1)) or, in the conflicting variant, share one terminal.
func (s *synGen) nullTails() *Grammar {
	s.pickTerminals(6)
	t := s.terms
	p, q := t[1], t[2]
	o1, o2 := t[3], t[4]
	if s.r.Intn(4) == 0 {
		q = p // both reductions now compete on p once the tails are empty: a real conflict
	}
	g := &Grammar{NTs: []*NTDef{
		{Head: "T", Alts: []SAlt{alt(nt("U"), p), alt(nt("V"), q)}},
		{Head: "U", Alts: []SAlt{alt(nt("A"), nt("OptP"))}},
		{Head: "V", Alts: []SAlt{alt(nt("B"), nt("OptQ"))}},
		{Head: "A", Alts: []SAlt{alt(t[0])}},
		{Head: "B", Alts: []SAlt{alt(t[0])}},
		{Head: "OptP", Alts: []SAlt{alt(o1), emptyAlt()}},
		{Head: "OptQ", Alts: []SAlt{alt(o2), emptyAlt()}},
	}}
	if s.r.Intn(2) == 0 {
		// a longer nullable tail
		g.NTs[1].Alts[0] = alt(nt("A"), nt("OptP"), nt("OptP"))
	}
	if s.r.Intn(3) == 0 {
		g.NTs[5].Alts[0], g.NTs[5].Alts[1] = g.NTs[5].Alts[1], g.NTs[5].Alts[0]
	}
	if s.r.Intn(3) == 0 {
		g.NTs[0].Alts = append(g.NTs[0].Alts, alt(t[5], nt("T")))
	}
	return g
}

// cyclic: a start symbol that derives itself (accept/reduce conflict), directly or through a chain.
func (s *synGen) cyclic() *Grammar {
	s.pickTerminals(3)
	t := s.terms
	switch s.r.Intn(3) {
	case 0:
		return &Grammar{NTs: []*NTDef{{Head: "S", Alts: []SAlt{alt(nt("S")), alt(t[0])}}}}
	case 1:
		return &Grammar{NTs: []*NTDef{
			{Head: "S", Alts: []SAlt{alt(nt("A")), alt(t[0], nt("S"))}},
			{Head: "A", Alts: []SAlt{alt(nt("S")), alt(t[1])}}}}
	}
	// self-derivation through a nullable neighbour: S : N S | a ; N : empty | b
	return &Grammar{NTs: []*NTDef{
		{Head: "S", Alts: []SAlt{alt(nt("N"), nt("S")), alt(t[0])}},
		{Head: "N", Alts: []SAlt{emptyAlt(), alt(t[1])}}}}
}

// rrOneLookahead: two reductions compete on exactly one look-ahead, or on none.
func (s *synGen) rrOneLookahead() *Grammar {
	s.pickTerminals(5)
	t := s.terms
	x, y := t[3], t[4]
	if s.r.Intn(2) == 0 {
		y = x // same follower: reduce/reduce conflict on that one terminal
	}
	return &Grammar{NTs: []*NTDef{
		{Head: "S", Alts: []SAlt{alt(nt("A"), x), alt(nt("B"), y), alt(t[0], nt("A"), t[1])}},
		{Head: "A", Alts: []SAlt{alt(t[2])}},
		{Head: "B", Alts: []SAlt{alt(t[2])}}}}
}

// nullConflict: a conflict that is only reachable through nullable prefixes.
func (s *synGen) nullConflict() *Grammar {
	s.pickTerminals(4)
	t := s.terms
	g := &Grammar{NTs: []*NTDef{
		{Head: "S", Alts: []SAlt{alt(nt("N"), nt("M"), t[0]), alt(nt("M"), nt("N"), t[1])}},
		{Head: "N", Alts: []SAlt{emptyAlt(), alt(t[2])}},
		{Head: "M", Alts: []SAlt{emptyAlt(), alt(t[3])}}}}
	if s.r.Intn(2) == 0 {
		g.NTs[0].Alts[1] = alt(nt("M"), t[1])
	}
	return g
}

// long: alternatives with more than ten symbols (multi-digit $ indices).
func (s *synGen) long() *Grammar {
	s.pickTerminals(4)
	var body []Sym
	n := 11 + s.r.Intn(4)
	for i := 0; i < n; i++ {
		if s.r.Intn(4) == 0 {
			body = append(body, nt("X"))
		} else {
			body = append(body, s.term())
		}
	}
	top := &NTDef{Head: "S", Alts: []SAlt{alt(body...), alt(s.terms[0])}}
	x := &NTDef{Head: "X", Alts: []SAlt{alt(s.terms[1]), alt(s.terms[2], nt("X"))}}
	g := &Grammar{NTs: []*NTDef{top, x}}
	if s.r.Intn(2) == 0 {
		return s.longKeyed()
	}
	if s.r.Intn(2) == 0 {
		// many productions as well: production numbers and dot positions both reach two digits
		// (an item key that runs them together confuses (1,10) with (11,0))
		top.Alts[0].Body = append(top.Alts[0].Body, nt("Tail"))
		top.Alts = append(top.Alts, alt(s.terms[3], nt("Kind")))
		kind := &NTDef{Head: "Kind"}
		for i, n := 0, 8+s.r.Intn(14); i < n; i++ {
			b := []Sym{s.terms[i%4]}
			for k := i / 4; k > 0; k-- {
				b = append(b, s.terms[(i+k)%4])
			}
			b = append(b, s.terms[3], s.terms[3])
			kind.Alts = append(kind.Alts, alt(b...))
		}
		tail := &NTDef{Head: "Tail", Alts: []SAlt{alt(s.terms[0], s.terms[1]), alt(s.terms[2])}}
		g.NTs = []*NTDef{top, kind, tail, x}
		if s.r.Intn(2) == 0 {
			g.NTs = []*NTDef{top, x, kind, tail}
		}
	}
	return g
}

// longKeyed: production p has a nonterminal at position d (10 or 20) whose first production
// is number q, where the decimal digits of p followed by those of d are the digits of q
// followed by 0: an item key that writes the two numbers without a separator confuses the item
// (p, d) with the closure item (q, 0) that the same state must hold.
func (s *synGen) longKeyed() *Grammar {
	s.pickTerminals(6)
	t := s.terms
	type pick struct{ p, d, q int }
	c := []pick{{1, 10, 11}, {2, 10, 21}, {3, 10, 31}, {1, 20, 12}}[s.r.Intn(4)]
	top := &NTDef{Head: "S"}
	for i := 1; i < c.p; i++ {
		top.Alts = append(top.Alts, alt(t[i-1], t[i-1])) // short alternatives before the long one
	}
	body := []Sym{t[2]}
	for len(body) < c.d {
		body = append(body, t[s.r.Intn(3)])
	}
	body = append(body, nt("Tail"))
	if s.r.Intn(2) == 0 {
		body = append(body, t[4])
	}
	top.Alts = append(top.Alts, alt(body...))
	top.Alts = append(top.Alts, alt(t[3], nt("Kind")))
	kind := &NTDef{Head: "Kind"}
	for i, n := 0, c.q-1-len(top.Alts); i < n; i++ {
		var b []Sym
		for bit := 0; bit < 5; bit++ {
			b = append(b, t[(i>>bit)&1])
		}
		kind.Alts = append(kind.Alts, alt(b...))
	}
	tail := &NTDef{Head: "Tail", Alts: []SAlt{alt(t[0], t[1]), alt(t[5])}}
	return &Grammar{NTs: []*NTDef{top, kind, tail}}
}

func (s *synGen) random() *Grammar {
	s.pickTerminals(2 + s.r.Intn(4))
	nnt := 2 + s.r.Intn(5)
	names := []string{"S", "A", "B", "C", "D", "F", "G"}[:nnt]
	g := &Grammar{}
	for _, h := range names {
		d := &NTDef{Head: h}
		nalt := 1 + s.r.Intn(4)
		for i := 0; i < nalt; i++ {
			nsym := s.r.Intn(5)
			if nsym == 0 {
				d.Alts = append(d.Alts, emptyAlt())
				continue
			}
			var body []Sym
			for j := 0; j < nsym; j++ {
				if s.r.Intn(5) < 2 {
					body = append(body, nt(names[s.r.Intn(len(names))]))
				} else {
					body = append(body, s.term())
				}
			}
			d.Alts = append(d.Alts, alt(body...))
		}
		// at most one empty alternative per head
		seenEmpty := false
		var alts []SAlt
		for _, a := range d.Alts {
			if a.Empty {
				if seenEmpty {
					continue
				}
				seenEmpty = true
			}
			alts = append(alts, a)
		}
		d.Alts = alts
		g.NTs = append(g.NTs, d)
	}
	return g
}

func (s *synGen) injectAmbiguity(g *Grammar) {
	d := g.NTs[s.r.Intn(len(g.NTs))]
	switch s.r.Intn(4) {
	case 0: // E : E op E
		d.Alts = append(d.Alts, alt(nt(d.Head), s.term(), nt(d.Head)))
	case 1: // duplicate an alternative of another head (reduce/reduce)
		o := g.NTs[s.r.Intn(len(g.NTs))]
		a := o.Alts[s.r.Intn(len(o.Alts))]
		if !a.Empty && len(a.Body) > 0 {
			d.Alts = append(d.Alts, SAlt{Err: a.Err, Body: append([]Sym(nil), a.Body...)})
		} else {
			d.Alts = append(d.Alts, alt(nt(d.Head), nt(d.Head)))
		}
	case 2: // dangling else
		i, e := s.term(), s.term()
		d.Alts = append(d.Alts, alt(i, nt(d.Head)), alt(i, nt(d.Head), e, nt(d.Head)))
	case 3: // a second nonterminal deriving the same terminal
		t := s.term()
		x := &NTDef{Head: "Y1", Alts: []SAlt{alt(t)}}
		y := &NTDef{Head: "Y2", Alts: []SAlt{alt(t)}}
		d.Alts = append(d.Alts, alt(nt("Y1")), alt(nt("Y2"), s.term()), alt(nt("Y2")))
		g.NTs = append(g.NTs, x, y)
	}
}

func (s *synGen) injectErrors(g *Grammar) {
	n := 1 + s.r.Intn(2)
	for i := 0; i < n; i++ {
		d := g.NTs[s.r.Intn(len(g.NTs))]
		switch s.r.Intn(4) {
		case 0:
			d.Alts = append(d.Alts, errAlt())
		case 1, 2:
			d.Alts = append(d.Alts, errAlt(s.term()))
		case 3:
			d.Alts = append(d.Alts, errAlt(s.term(), nt(g.NTs[s.r.Intn(len(g.NTs))].Head)))
		}
	}
}

// ---------- actions ----------

// AssignActions gives every alternative either no action or a recorder call with a random
// selection of $i / $Ti arguments. Production numbers are those of Flat().
// mode: 0 = random mix, 1 = recorder everywhere (all arguments), 2 = no actions at all,
// 3 = recorder with all arguments everywhere except on empty alternatives, which get no action.
func AssignActions(r *rand.Rand, g *Grammar, mode int) {
	idx := 0
	for _, d := range g.NTs {
		for ai := range d.Alts {
			idx++
			a := &d.Alts[ai]
			a.Act = Action{}
			if mode == 2 || mode == 3 && a.Empty {
				continue
			}
			if mode == 0 && (r.Intn(4) == 0 || a.Empty && r.Intn(2) == 0) {
				continue
			}
			n := len(a.Body)
			off := 0
			if a.Err {
				n++
				off = 1
			}
			var args []ArgRef
			for i := 0; i < n; i++ {
				if mode == 0 && r.Intn(3) == 0 {
					continue
				}
				ar := ArgRef{Idx: i}
				if i >= off && a.Body[i-off].Kind != SNT && r.Intn(2) == 0 {
					ar.AsTok = true
				}
				args = append(args, ar)
			}
			if mode == 0 && len(args) > 1 && r.Intn(3) == 0 {
				r.Shuffle(len(args), func(i, j int) { args[i], args[j] = args[j], args[i] })
			}
			a.Act = Action{Kind: ActRec, Args: args, UseCtx: true}
			a.Act.Raw = RecText(idx, args)
		}
	}
}

// RecText is the action text of a recorder call.
func RecText(prod int, args []ArgRef) string {
	var sb strings.Builder
	fmt.Fprintf(&sb, "tr.R($Context, %d", prod)
	for _, a := range args {
		if a.AsTok {
			fmt.Fprintf(&sb, ", $T%d", a.Idx)
		} else {
			fmt.Fprintf(&sb, ", $%d", a.Idx)
		}
	}
	sb.WriteString(")")
	return sb.String()
}

// SetHarnessHeader installs the file header the recorder actions need.
func SetHarnessHeader(g *Grammar, modPath, name string) {
	g.Header = fmt.Sprintf("import (\n\t\"%s/tr\"\n\t\"%s/%s/token\"\n)\n\nvar _ = tr.R\nvar _ token.Type\n", modPath, modPath, name)
}

// AddSimpleLex appends a lexical part in which every named token of the syntax part is
// the one-letter pattern of its own name, plus white space to ignore. String literals
// lex as themselves.
func AddSimpleLex(g *Grammar) {
	seen := map[string]bool{}
	for _, s := range g.SyntaxTerminals() {
		if s.Kind == STok && !seen[s.Name] && s.Name != "error" {
			seen[s.Name] = true
			g.Lex = append(g.Lex, LexDef{Kind: DTok, Name: s.Name, Pat: StrPattern(s.Name)})
		}
	}
	g.Lex = append(g.Lex, LexDef{Kind: DIgn, Name: "!ws", Pat: Alts([]Term{Lit(' ')}, []Term{Lit('\n')}, []Term{Lit('\t')})})
}
