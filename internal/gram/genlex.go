package gram

import (
	"fmt"
	"math/rand"
	"unicode/utf8"
)

// ---------- random lexical parts ----------

var asciiPool = []rune{'a', 'b', 'c', 'd', 'e', '0', '1', '2', '+', '-', ';', '(', ')', '=', '<', '.', '/', '*', ' ', '\t', '\n', '\r', 'x', 'y', 'z'}
var boundaryPool = []rune{0x00, 0x01, 0x7e, 0x7f, 0x80, 0x81, 0xff, 0x100, 0x7ff, 0x800, 0xd7ff, 0xe000, 0xfffd, 0xfffe, 0xffff, 0x10000, 0x10ffff, 'é', 'λ', '中', '😀'}

// IllFormed are byte strings that are not valid UTF-8 (each decodes to one or more U+FFFD of width 1).
var IllFormed = []string{"\x80", "\xbf", "\xc3", "\xe2\x82", "\xc0\xaf", "\xed\xa0\x80", "\xf4\x90\x80\x80", "\xff", "\xf0\x9f\x98", "\xe0\x80\x80", "\xfe"}

type LexGenOpts struct {
	MaxToks         int
	MaxIgn          int
	MaxRegS1        int
	AllowS2         bool // one arbitrary regdef used once at the start of a token alternative
	FreeRegdefs     bool // arbitrary (acyclic, possibly nullable, multiply used) regular definitions: the full macro semantics
	AllowDot        bool
	StrLits         int  // up to this many string literals in a small syntax part
	NoNullableRep   bool // never put a nullable body inside { } or [ ] (finding F2)
	AllowNullableTop bool
	MaxDepth        int
	AsciiOnly       bool
}

func DefaultLexGenOpts() LexGenOpts {
	return LexGenOpts{MaxToks: 5, MaxIgn: 2, MaxRegS1: 3, AllowS2: true, FreeRegdefs: true, AllowDot: true, StrLits: 3, MaxDepth: 3}
}

type lexGen struct {
	r     *rand.Rand
	o     LexGenOpts
	alpha []rune
	s1    []string
	defs  map[string]*Pattern
}

func pickAlphabet(r *rand.Rand, asciiOnly bool) []rune {
	n := 3 + r.Intn(6)
	seen := map[rune]bool{}
	var out []rune
	for len(out) < n {
		var c rune
		if !asciiOnly && r.Intn(4) == 0 {
			c = boundaryPool[r.Intn(len(boundaryPool))]
		} else {
			c = asciiPool[r.Intn(len(asciiPool))]
		}
		if !seen[c] {
			seen[c] = true
			out = append(out, c)
		}
	}
	return out
}

func (g *lexGen) rune1() rune { return g.alpha[g.r.Intn(len(g.alpha))] }

func (g *lexGen) rangeTerm() Term {
	a, b := g.rune1(), g.rune1()
	switch g.r.Intn(4) {
	case 0: // small range around one rune
		b = a + rune(g.r.Intn(3))
	case 1: // adjacent / overlapping with another literal
		if a > 0 {
			a--
		}
		b = a + rune(1+g.r.Intn(4))
	case 2: // starts exactly two above another rune of the alphabet: a one-character gap between classes
		a = g.rune1() + 2
		b = a + rune(g.r.Intn(3))
	}
	if a > b {
		a, b = b, a
	}
	if a > utf8.MaxRune {
		a = utf8.MaxRune
	}
	if b > utf8.MaxRune {
		b = utf8.MaxRune
	}
	// keep the bounds spellable (no surrogates as bounds)
	if a >= 0xd800 && a <= 0xdfff {
		a = 0xd7ff
	}
	if b >= 0xd800 && b <= 0xdfff {
		b = 0xe000
	}
	return Rng(a, b)
}

// fixRune keeps a computed rune inside the valid, spellable range.
func fixRune(r rune) rune {
	if r < 0 {
		return 0
	}
	if r > utf8.MaxRune {
		return utf8.MaxRune
	}
	if r >= 0xd800 && r <= 0xdfff {
		return 0xe000
	}
	return r
}

// charClass builds an S1 pattern: an alternation of single literals / ranges / S1 refs.
func (g *lexGen) charClass() *Pattern {
	p := &Pattern{}
	n := 1 + g.r.Intn(4)
	for i := 0; i < n; i++ {
		var t Term
		switch k := g.r.Intn(12); {
		case k < 5:
			t = Lit(g.rune1())
		case k == 10 && len(p.Alts) > 0:
			// a class member exactly two above (or below) the previous one: one-character gap
			prev := p.Alts[len(p.Alts)-1].Terms[0]
			if prev.Kind == TRef {
				t = Lit(g.rune1())
			} else if g.r.Intn(2) == 0 || prev.Lo < 2 {
				t = Lit(fixRune(prev.Hi + 2))
			} else {
				t = Lit(fixRune(prev.Lo - 2))
			}
		case k < 8 || len(g.s1) == 0:
			t = g.rangeTerm()
		default:
			t = Ref(g.s1[g.r.Intn(len(g.s1))])
		}
		p.Alts = append(p.Alts, Alt{Terms: []Term{t}})
	}
	return p
}

func (g *lexGen) nullable(p *Pattern) bool { return Nullable(p, g.defs) }

// Nullable reports whether p matches the empty string (regdefs looked up in defs).
func Nullable(p *Pattern, defs map[string]*Pattern) bool {
	for _, a := range p.Alts {
		all := true
		for _, t := range a.Terms {
			switch t.Kind {
			case TOpt, TRep:
			case TGroup:
				if !Nullable(t.Sub, defs) {
					all = false
				}
			case TRef:
				if d, ok := defs[t.Ref]; !ok || !Nullable(d, defs) {
					all = false
				}
			default:
				all = false
			}
			if !all {
				break
			}
		}
		if all {
			return true
		}
	}
	return false
}

func (g *lexGen) pattern(depth int, allowNullable bool) *Pattern {
	for try := 0; ; try++ {
		p := &Pattern{}
		nalt := 1
		if g.r.Intn(3) == 0 {
			nalt += g.r.Intn(3)
		}
		for i := 0; i < nalt; i++ {
			nterm := 1 + g.r.Intn(4)
			var a Alt
			for j := 0; j < nterm; j++ {
				a.Terms = append(a.Terms, g.term(depth))
			}
			p.Alts = append(p.Alts, a)
		}
		if allowNullable || !g.nullable(p) || try > 20 {
			if !allowNullable && g.nullable(p) {
				// force non-nullable
				p.Alts[0].Terms = append(p.Alts[0].Terms, Lit(g.rune1()))
				for i := 1; i < len(p.Alts); i++ {
					if Nullable(&Pattern{Alts: []Alt{p.Alts[i]}}, g.defs) {
						p.Alts[i].Terms = append(p.Alts[i].Terms, Lit(g.rune1()))
					}
				}
			}
			return p
		}
	}
}

func (g *lexGen) term(depth int) Term {
	k := g.r.Intn(100)
	switch {
	case k < 40:
		return Lit(g.rune1())
	case k < 55:
		return g.rangeTerm()
	case k < 60 && g.o.AllowDot:
		return Dot()
	case k < 70 && len(g.s1) > 0:
		return Ref(g.s1[g.r.Intn(len(g.s1))])
	case k < 80 && depth < g.o.MaxDepth:
		return Opt(g.pattern(depth+1, !g.o.NoNullableRep))
	case k < 90 && depth < g.o.MaxDepth:
		return Rep(g.pattern(depth+1, !g.o.NoNullableRep))
	case k < 96 && depth < g.o.MaxDepth:
		return Group(g.pattern(depth+1, true))
	}
	return Lit(g.rune1())
}

// ExpandedSize is the number of pattern nodes of the tokens and ignored tokens after every
// regular definition has been expanded at every use site (what the generator has to work on).
func (g *Grammar) ExpandedSize() int {
	defs := g.RegDefs()
	memo := map[string]int{}
	var size func(p *Pattern, depth int) int
	size = func(p *Pattern, depth int) int {
		n := 0
		for _, a := range p.Alts {
			for _, t := range a.Terms {
				n++
				if t.Sub != nil {
					n += size(t.Sub, depth)
				}
				if t.Kind == TRef && depth < 30 {
					if v, ok := memo[t.Ref]; ok {
						n += v
					} else if d, ok := defs[t.Ref]; ok {
						v := size(d, depth+1)
						memo[t.Ref] = v
						n += v
					}
				}
			}
		}
		return n
	}
	total := 0
	for _, d := range g.Lex {
		if d.Kind != DReg {
			total += size(d.Pat, 0)
		}
	}
	return total
}

// MaxExpandedSize bounds the lexical parts the generators produce (C09 judges termination on
// size-bounded inputs; expansion of nested regular definitions multiplies sizes).
const MaxExpandedSize = 260

// GenLexGrammar builds a random lexical part (plus, with StrLits > 0, a tiny conflict-free
// syntax part that only serves to introduce string-literal tokens). The expanded size of the
// result is bounded by MaxExpandedSize.
func GenLexGrammar(r *rand.Rand, o LexGenOpts) *Grammar {
	for try := 0; ; try++ {
		g := genLexGrammar(r, o)
		if g.ExpandedSize() <= MaxExpandedSize || try > 50 {
			return g
		}
	}
}

func genLexGrammar(r *rand.Rand, o LexGenOpts) *Grammar {
	g := &lexGen{r: r, o: o, alpha: pickAlphabet(r, o.AsciiOnly), defs: map[string]*Pattern{}}
	out := &Grammar{}
	nreg := 0
	if o.MaxRegS1 > 0 {
		nreg = r.Intn(o.MaxRegS1 + 1)
	}
	for i := 0; i < nreg; i++ {
		name := fmt.Sprintf("_c%d", i)
		p := g.charClass()
		g.defs[name] = p
		out.Lex = append(out.Lex, LexDef{Kind: DReg, Name: name, Pat: p})
		g.s1 = append(g.s1, name)
	}
	if o.FreeRegdefs {
		for i, n := 0, r.Intn(4); i < n; i++ {
			name := fmt.Sprintf("_m%d", i)
			p := g.pattern(1, r.Intn(4) == 0)
			g.defs[name] = p
			out.Lex = append(out.Lex, LexDef{Kind: DReg, Name: name, Pat: p})
			g.s1 = append(g.s1, name) // later patterns (and later definitions) may use it anywhere, any number of times
		}
	}
	ntok := 1 + r.Intn(o.MaxToks)
	nign := 0
	if o.MaxIgn > 0 {
		nign = r.Intn(o.MaxIgn + 1)
	}
	type slot struct {
		kind DefKind
		name string
	}
	var slots []slot
	for i := 0; i < ntok; i++ {
		slots = append(slots, slot{DTok, fmt.Sprintf("t_%d", i)})
	}
	for i := 0; i < nign; i++ {
		slots = append(slots, slot{DIgn, fmt.Sprintf("!i_%d", i)})
	}
	r.Shuffle(len(slots), func(i, j int) { slots[i], slots[j] = slots[j], slots[i] })
	s2used := false
	var lexemes []string // sampled lexemes, used to derive overlapping patterns / string literals
	for _, s := range slots {
		var p *Pattern
		switch k := r.Intn(12); {
		case k == 11:
			// many single-character alternatives in shuffled order: one state with many classes
			n := 12 + r.Intn(14)
			base := []rune{'b', 'A', '0', 0x3b1}[r.Intn(4)]
			perm := r.Perm(n)
			p = &Pattern{}
			for _, k := range perm {
				p.Alts = append(p.Alts, Alt{Terms: []Term{Lit(base + rune(k)), Lit(g.rune1())}})
			}
		case k < 2 && len(lexemes) > 0:
			// a pattern that is a prefix / extension of an earlier lexeme (overlap on purpose)
			base := []rune(lexemes[r.Intn(len(lexemes))])
			if len(base) > 1 && r.Intn(2) == 0 {
				base = base[:1+r.Intn(len(base)-1)]
			} else {
				base = append(base, g.rune1())
			}
			p = StrPattern(string(base))
		default:
			p = g.pattern(0, o.AllowNullableTop && r.Intn(10) == 0)
		}
		if o.AllowS2 && !s2used && s.kind == DTok && r.Intn(4) == 0 {
			name := "_s2"
			rp := g.pattern(1, false)
			g.defs[name] = rp
			out.Lex = append(out.Lex, LexDef{Kind: DReg, Name: name, Pat: rp})
			ai := r.Intn(len(p.Alts))
			p.Alts[ai].Terms = append([]Term{Ref(name)}, p.Alts[ai].Terms...)
			s2used = true
		}
		out.Lex = append(out.Lex, LexDef{Kind: s.kind, Name: s.name, Pat: p})
		if lx, ok := SampleLexeme(r, p, g.defs, g.alpha, 0); ok && len(lx) > 0 {
			lexemes = append(lexemes, string(lx))
		}
	}
	// the same complete lexeme for a token and an ignored token, in both declaration orders
	// (priority between kinds), and for two tokens (priority within a kind)
	if len(lexemes) > 0 && r.Intn(2) == 0 {
		lx := lexemes[r.Intn(len(lexemes))]
		kind, name := DIgn, "!i_twin"
		if r.Intn(3) == 0 {
			kind, name = DTok, "t_twin"
		}
		d := LexDef{Kind: kind, Name: name, Pat: StrPattern(lx)}
		at := r.Intn(len(out.Lex) + 1)
		out.Lex = append(out.Lex[:at:at], append([]LexDef{d}, out.Lex[at:]...)...)
		if kind == DTok {
			slots = append(slots, slot{DTok, name})
		}
	}
	// string literals: a tiny syntax part  S_ : X_ | S_ X_ ;  X_ : <each terminal> ;
	nstr := 0
	if o.StrLits > 0 {
		nstr = r.Intn(o.StrLits + 1)
	}
	seen := map[string]bool{}
	var strs []string
	for i := 0; i < nstr; i++ {
		var content string
		if len(lexemes) > 0 && r.Intn(2) == 0 {
			content = lexemes[r.Intn(len(lexemes))] // equal to a lexeme of a named pattern: priority tie
		} else {
			n := 1 + r.Intn(3)
			for j := 0; j < n; j++ {
				content += string(g.rune1())
			}
		}
		if !okStringContent(content) || seen[content] {
			continue
		}
		seen[content] = true
		strs = append(strs, content)
	}
	if len(strs) > 0 {
		x := &NTDef{Head: "X_"}
		for _, s := range strs {
			x.Alts = append(x.Alts, SAlt{Body: []Sym{{SStr, s}}})
		}
		for _, s := range slots {
			if s.kind == DTok && r.Intn(2) == 0 {
				x.Alts = append(x.Alts, SAlt{Body: []Sym{{STok, s.name}}})
			}
		}
		out.NTs = []*NTDef{
			{Head: "S_", Alts: []SAlt{{Body: []Sym{{SNT, "X_"}}}, {Body: []Sym{{SNT, "S_"}, {SNT, "X_"}}}}},
			x,
		}
	}
	return out
}

// okStringContent: printable, no quote / back-quote / backslash / control characters,
// and not one of gocc's reserved spellings.
func okStringContent(s string) bool {
	if s == "" || s == "error" || s == "empty" || s == "INVALID" || s == NameEOFStr {
		return false
	}
	for _, c := range s {
		if c < 0x20 || c == 0x7f || c == '"' || c == '`' || c == '\\' || c == utf8.RuneError || !utf8.ValidRune(c) {
			return false
		}
		if c >= 0xd800 && c <= 0xdfff {
			return false
		}
	}
	return true
}

const NameEOFStr = "␚"

// SampleLexeme walks p at random and returns one string it matches.
func SampleLexeme(r *rand.Rand, p *Pattern, defs map[string]*Pattern, alpha []rune, depth int) ([]rune, bool) {
	if depth > 12 || len(p.Alts) == 0 {
		return nil, false
	}
	a := p.Alts[r.Intn(len(p.Alts))]
	var out []rune
	for _, t := range a.Terms {
		switch t.Kind {
		case TLit:
			out = append(out, t.Lo)
		case TRange:
			c := t.Lo
			if t.Hi > t.Lo {
				switch r.Intn(3) {
				case 0:
					c = t.Hi
				case 1:
					c = t.Lo + rune(r.Int63n(int64(t.Hi-t.Lo)+1))
				}
			}
			if c >= 0xd800 && c <= 0xdfff {
				c = t.Lo
			}
			out = append(out, c)
		case TDot:
			if len(alpha) > 0 && r.Intn(3) > 0 {
				out = append(out, alpha[r.Intn(len(alpha))])
			} else {
				out = append(out, []rune{'q', 'Z', '~', 0x2603, '!', '#'}[r.Intn(6)])
			}
		case TRef:
			d, ok := defs[t.Ref]
			if !ok {
				return nil, false
			}
			s, ok := SampleLexeme(r, d, defs, alpha, depth+1)
			if !ok {
				return nil, false
			}
			out = append(out, s...)
		case TGroup:
			s, ok := SampleLexeme(r, t.Sub, defs, alpha, depth+1)
			if !ok {
				return nil, false
			}
			out = append(out, s...)
		case TOpt:
			if r.Intn(2) == 0 {
				s, ok := SampleLexeme(r, t.Sub, defs, alpha, depth+1)
				if !ok {
					return nil, false
				}
				out = append(out, s...)
			}
		case TRep:
			for n := r.Intn(4); n > 0; n-- {
				s, ok := SampleLexeme(r, t.Sub, defs, alpha, depth+1)
				if !ok {
					return nil, false
				}
				out = append(out, s...)
			}
		}
	}
	return out, true
}

// RegDefs returns the regdef table of g.
func (g *Grammar) RegDefs() map[string]*Pattern {
	m := map[string]*Pattern{}
	for _, d := range g.Lex {
		if d.Kind == DReg {
			m[d.Name] = d.Pat
		}
	}
	return m
}

// LexAlphabet collects every literal rune and range bound of the lexical part and the
// string literals, plus their neighbours (class boundaries ±1).
func (g *Grammar) LexAlphabet() (core []rune, boundary []rune) {
	seenC, seenB := map[rune]bool{}, map[rune]bool{}
	addC := func(c rune) {
		if !seenC[c] && utf8.ValidRune(c) {
			seenC[c] = true
			core = append(core, c)
		}
	}
	addB := func(c rune) {
		if c >= 0 && c <= utf8.MaxRune && !seenB[c] && utf8.ValidRune(c) {
			seenB[c] = true
			boundary = append(boundary, c)
		}
	}
	var walk func(p *Pattern)
	walk = func(p *Pattern) {
		for _, a := range p.Alts {
			for _, t := range a.Terms {
				switch t.Kind {
				case TLit, TRange:
					addC(t.Lo)
					addC(t.Hi)
					addB(t.Lo - 1)
					addB(t.Lo)
					addB(t.Lo + 1)
					addB(t.Hi - 1)
					addB(t.Hi)
					addB(t.Hi + 1)
				}
				if t.Sub != nil {
					walk(t.Sub)
				}
			}
		}
	}
	for _, d := range g.Lex {
		walk(d.Pat)
	}
	for _, s := range g.SyntaxTerminals() {
		if s.Kind == SStr {
			for _, c := range s.Name {
				addC(c)
				addB(c - 1)
				addB(c + 1)
			}
		}
	}
	return
}

// GenLexInputs builds n hostile inputs for the lexer of g.
func GenLexInputs(r *rand.Rand, g *Grammar, n int) [][]byte {
	defs := g.RegDefs()
	core, boundary := g.LexAlphabet()
	if len(core) == 0 {
		core = []rune{'a'}
	}
	var pats []*Pattern
	for _, d := range g.Lex {
		if d.Kind != DReg {
			pats = append(pats, d.Pat)
		}
	}
	for _, s := range g.SyntaxTerminals() {
		if s.Kind == SStr {
			pats = append(pats, StrPattern(s.Name))
		}
	}
	lexeme := func() []byte {
		if len(pats) == 0 {
			return []byte("a")
		}
		s, ok := SampleLexeme(r, pats[r.Intn(len(pats))], defs, core, 0)
		if !ok {
			return []byte("a")
		}
		return []byte(string(s))
	}
	randRune := func() []byte {
		switch r.Intn(10) {
		case 0, 1, 2, 3:
			return []byte(string(core[r.Intn(len(core))]))
		case 4, 5, 6:
			if len(boundary) > 0 {
				return []byte(string(boundary[r.Intn(len(boundary))]))
			}
			return []byte("?")
		case 7:
			return []byte(IllFormed[r.Intn(len(IllFormed))])
		case 8:
			return []byte{[]byte(" \t\n\r")[r.Intn(4)]}
		}
		return []byte(string(asciiPool[r.Intn(len(asciiPool))]))
	}
	out := [][]byte{{}}
	// systematic probes: every prefix of some sampled lexemes followed by every rune of the
	// core and boundary alphabets (covers (state, class boundary) pairs), optionally continued
	probeBudget := n / 2
	allRunes := append(append([]rune(nil), core...), boundary...)
	for tries := 0; tries < 40 && probeBudget > 0; tries++ {
		lx := []rune(string(lexeme()))
		if len(lx) > 6 {
			lx = lx[:6]
		}
		for p := 0; p <= len(lx) && probeBudget > 0; p++ {
			for _, c := range allRunes {
				if probeBudget <= 0 {
					break
				}
				b := []byte(string(lx[:p]) + string(c))
				if r.Intn(3) == 0 && p < len(lx) {
					b = append(b, []byte(string(lx[p:]))...)
				}
				out = append(out, b)
				probeBudget--
			}
		}
	}
	n += len(out) - 1
	for len(out) < n {
		var b []byte
		switch r.Intn(8) {
		case 0, 1, 2: // concatenated lexemes
			for k := 1 + r.Intn(6); k > 0; k-- {
				b = append(b, lexeme()...)
				if r.Intn(4) == 0 {
					b = append(b, randRune()...)
				}
			}
		case 3: // single-edit mutants of lexeme sequences
			for k := 1 + r.Intn(4); k > 0; k-- {
				b = append(b, lexeme()...)
			}
			if len(b) > 0 {
				i := r.Intn(len(b))
				switch r.Intn(3) {
				case 0:
					b = append(b[:i:i], b[i+1:]...)
				case 1:
					b = append(b[:i:i], append(randRune(), b[i:]...)...)
				case 2:
					b[i] = randRune()[0]
				}
			}
		case 4, 5: // strings over the boundary alphabet
			for k := 1 + r.Intn(8); k > 0; k-- {
				b = append(b, randRune()...)
			}
		case 6: // input ending mid-lexeme
			b = append(b, lexeme()...)
			b = append(b, lexeme()...)
			if len(b) > 1 {
				b = b[:1+r.Intn(len(b)-1)]
			}
		case 7: // position-hostile: tabs, CR, LF around lexemes
			for k := 1 + r.Intn(5); k > 0; k-- {
				b = append(b, []string{"\t", "\r", "\n", "\r\n", " ", "", "\t\t"}[r.Intn(7)]...)
				b = append(b, lexeme()...)
			}
			b = append(b, []string{"", "\n", "\t", "\r"}[r.Intn(4)]...)
		}
		if len(b) > 200 {
			b = b[:200]
		}
		out = append(out, b)
	}
	return out
}

// NestedLexGrammar: one token whose pattern nests brackets depth levels deep (groups, options,
// repetitions mixed), a second short token and white space. The front end's parse stack, the
// item closure and the NFA of the reference all meet the same depth.
func NestedLexGrammar(r *rand.Rand, depth int) *Grammar {
	letters := []rune("abcdefgh")
	var build func(d int) *Pattern
	build = func(d int) *Pattern {
		c := letters[d%len(letters)]
		if d == depth {
			return Seq(Lit(c))
		}
		sub := build(d + 1)
		var inner Term
		switch r.Intn(3) {
		case 0:
			inner = Group(sub)
		case 1:
			inner = Opt(sub)
		default:
			inner = Rep(sub)
		}
		switch r.Intn(3) {
		case 0:
			return Seq(Lit(c), inner)
		case 1:
			return Seq(Lit(c), inner, Lit(c))
		default:
			return Alts([]Term{Lit(c), inner}, []Term{Lit(letters[(d+3)%len(letters)])})
		}
	}
	g := &Grammar{}
	g.Lex = append(g.Lex,
		LexDef{Kind: DTok, Name: "deep", Pat: build(0)},
		LexDef{Kind: DTok, Name: "num", Pat: Seq(Rng('0', '9'), Rep(Seq(Rng('0', '9'))))},
		LexDef{Kind: DIgn, Name: "!ws", Pat: Alts([]Term{Lit(' ')}, []Term{Lit('\n')})})
	return g
}

// HugeLexGrammar: legal but very long constructs - a token with n single-character
// alternatives, a token that is one sequence of n characters, a token with a repetition over an
// n-way alternation - next to ordinary short tokens.
func HugeLexGrammar(r *rand.Rand, n int) *Grammar {
	g := &Grammar{}
	var alts [][]Term
	base := rune(0x100)
	if r.Intn(2) == 0 {
		base = 0x4e00
	}
	for i := 0; i < n; i++ {
		alts = append(alts, []Term{Lit(base + rune(i))})
	}
	var seq []Term
	for i := 0; i < n; i++ {
		seq = append(seq, Lit(rune('a'+(i*7+i/26)%26)))
	}
	g.Lex = append(g.Lex,
		LexDef{Kind: DTok, Name: "glyph", Pat: Alts(alts...)},
		LexDef{Kind: DTok, Name: "longword", Pat: Seq(seq...)},
		LexDef{Kind: DTok, Name: "word", Pat: Seq(Rng('a', 'z'), Rep(Seq(Rng('a', 'z'))))},
		LexDef{Kind: DTok, Name: "glyphs", Pat: Seq(Lit('#'), Rep(Alts(alts[:n/2]...)), Lit('#'))},
		LexDef{Kind: DIgn, Name: "!ws", Pat: Alts([]Term{Lit(' ')}, []Term{Lit('\n')})})
	return g
}
