// Package inp is the result protocol of the in-process probes (cmd/inproc-*), which import
// /repo's internal packages directly and are rebuilt at check time.
package inp

import (
	"encoding/json"
	"os"
)

type Violation struct {
	Kind     string      `json:"kind"`
	Ints     []int64     `json:"ints,omitempty"`
	Strs     []string    `json:"strs,omitempty"`
	Toks     []string    `json:"toks,omitempty"`
	Expected interface{} `json:"expected,omitempty"`
	Observed interface{} `json:"observed,omitempty"`
	Note     string      `json:"note"`
}

type Result struct {
	Evaluations  int                    `json:"evaluations"`
	Nontrivial   int                    `json:"nontrivial"`
	Samples      []interface{}          `json:"samples,omitempty"`
	Extra        map[string]interface{} `json:"extra,omitempty"`
	Violations   []Violation            `json:"violations,omitempty"`
	NumViol      int                    `json:"num_violations"`
	Exhaustive   bool                   `json:"exhaustive,omitempty"`
	Inconclusive []string               `json:"inconclusive,omitempty"`
}

func (r *Result) Viol(v Violation) {
	r.NumViol++
	if len(r.Violations) < 20 {
		r.Violations = append(r.Violations, v)
	}
}

func (r *Result) Sample(s interface{}) {
	if len(r.Samples) < 5 {
		r.Samples = append(r.Samples, s)
	}
}

func (r *Result) Write() {
	if r.Extra == nil {
		r.Extra = map[string]interface{}{}
	}
	json.NewEncoder(os.Stdout).Encode(r)
}
