package model

// M-EARLEY: Earley recogniser over the syntax part. Independent of any LR machinery.

type eItem struct {
	prod, dot, origin int
}

type Earley struct {
	C        *CFG
	nullable []bool
}

func NewEarley(c *CFG) *Earley {
	return &Earley{C: c, nullable: c.Nullable()}
}

type eSet struct {
	items []eItem
	has   map[eItem]bool
}

func (s *eSet) add(it eItem) {
	if !s.has[it] {
		s.has[it] = true
		s.items = append(s.items, it)
	}
}

// EarleyResult describes one run.
type EarleyResult struct {
	Accepted bool
	// FirstBad is the index of the first token t_i such that t_1..t_i is not a viable
	// prefix (set emptied), len(toks) when every token could be scanned but the input is
	// not a sentence, and -1 when accepted. Only meaningful when all nonterminals are productive.
	FirstBad int
	// Expected is the set of terminals (0 == end of input) that may follow the longest
	// viable prefix t_1..t_(FirstBad) — filled when not accepted.
	Expected map[int]bool
}

func (e *Earley) closeSet(sets []*eSet, i int) {
	c := e.C
	s := sets[i]
	for k := 0; k < len(s.items); k++ {
		it := s.items[k]
		body := c.Prods[it.prod].Body
		if it.dot < len(body) {
			sym := body[it.dot]
			if c.IsTerm(sym) {
				continue
			}
			nt := c.NTIndex(sym)
			for _, pi := range c.ProdsOf(nt) {
				s.add(eItem{pi, 0, i})
			}
			if e.nullable[nt] {
				s.add(eItem{it.prod, it.dot + 1, it.origin})
			}
			continue
		}
		// completer
		head := c.NTSym(c.Prods[it.prod].Head)
		o := sets[it.origin]
		for k2 := 0; k2 < len(o.items); k2++ {
			pit := o.items[k2]
			pb := c.Prods[pit.prod].Body
			if pit.dot < len(pb) && pb[pit.dot] == head {
				s.add(eItem{pit.prod, pit.dot + 1, pit.origin})
			}
		}
	}
}

func (e *Earley) expected(s *eSet) map[int]bool {
	exp := map[int]bool{}
	for _, it := range s.items {
		body := e.C.Prods[it.prod].Body
		if it.dot < len(body) {
			if e.C.IsTerm(body[it.dot]) {
				exp[body[it.dot]] = true
			}
		} else if it.prod == 0 && it.origin == 0 {
			exp[0] = true
		}
	}
	return exp
}

// Run analyses a terminal-id sequence (without the end marker).
func (e *Earley) Run(toks []int) EarleyResult {
	sets := make([]*eSet, 0, len(toks)+1)
	s0 := &eSet{has: map[eItem]bool{}}
	s0.add(eItem{0, 0, 0})
	sets = append(sets, s0)
	e.closeSet(sets, 0)
	for i, t := range toks {
		cur := sets[i]
		nxt := &eSet{has: map[eItem]bool{}}
		for _, it := range cur.items {
			body := e.C.Prods[it.prod].Body
			if it.dot < len(body) && body[it.dot] == t {
				nxt.add(eItem{it.prod, it.dot + 1, it.origin})
			}
		}
		if len(nxt.items) == 0 {
			return EarleyResult{Accepted: false, FirstBad: i, Expected: e.expected(cur)}
		}
		sets = append(sets, nxt)
		e.closeSet(sets, i+1)
	}
	last := sets[len(toks)]
	for _, it := range last.items {
		if it.prod == 0 && it.dot == len(e.C.Prods[0].Body) && it.origin == 0 {
			return EarleyResult{Accepted: true, FirstBad: -1}
		}
	}
	return EarleyResult{Accepted: false, FirstBad: len(toks), Expected: e.expected(last)}
}

// Accepts is membership only.
func (e *Earley) Accepts(toks []int) bool { return e.Run(toks).Accepted }
