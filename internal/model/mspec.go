package model

import (
	"fmt"
	"os"
	"path/filepath"
	"strings"
	"unicode"

	"github.com/goccmack/gocc/verifx/internal/gram"
)

// M-SPEC: spec/gocc2.ebnf read by a small reader of its own (productions, |, quoted
// terminals; << >> and comments skipped), then M-EARLEY / M-LR1 over the front-end token
// alphabet, "error" and "empty" being plain literal terminals.

type MSpec struct {
	G      *gram.Grammar
	CFG    *CFG
	Earley *Earley
}

func readSpecTokens(src string) ([]string, error) {
	var toks []string
	i := 0
	for i < len(src) {
		ch := src[i]
		switch {
		case ch == ' ' || ch == '\t' || ch == '\n' || ch == '\r':
			i++
		case strings.HasPrefix(src[i:], "//"):
			j := strings.IndexByte(src[i:], '\n')
			if j < 0 {
				i = len(src)
			} else {
				i += j
			}
		case strings.HasPrefix(src[i:], "/*"):
			j := strings.Index(src[i+2:], "*/")
			if j < 0 {
				return nil, fmt.Errorf("unterminated comment")
			}
			i += 2 + j + 2
		case strings.HasPrefix(src[i:], "<<"):
			j := strings.Index(src[i:], ">>")
			if j < 0 {
				return nil, fmt.Errorf("unterminated << >>")
			}
			i += j + 2
		case ch == '"':
			j := strings.IndexByte(src[i+1:], '"')
			if j < 0 {
				return nil, fmt.Errorf("unterminated string")
			}
			toks = append(toks, src[i:i+1+j+1])
			i += 1 + j + 1
		case ch == ':' || ch == '|' || ch == ';':
			toks = append(toks, string(ch))
			i++
		case ch == '_' || unicode.IsLetter(rune(ch)):
			j := i
			for j < len(src) && (src[j] == '_' || unicode.IsLetter(rune(src[j])) || unicode.IsDigit(rune(src[j]))) {
				j++
			}
			toks = append(toks, src[i:j])
			i = j
		default:
			return nil, fmt.Errorf("unexpected character %q in spec", ch)
		}
	}
	return toks, nil
}

// LoadMSpec reads <repo>/spec/gocc2.ebnf.
func LoadMSpec(repoDir string) (*MSpec, error) {
	b, err := os.ReadFile(filepath.Join(repoDir, "spec", "gocc2.ebnf"))
	if err != nil {
		return nil, err
	}
	toks, err := readSpecTokens(string(b))
	if err != nil {
		return nil, err
	}
	g := &gram.Grammar{}
	i := 0
	for i < len(toks) {
		if i+1 >= len(toks) || toks[i+1] != ":" {
			return nil, fmt.Errorf("spec: expected 'Head :' at token %d (%s)", i, toks[i])
		}
		d := &gram.NTDef{Head: toks[i]}
		i += 2
		cur := gram.SAlt{}
		for ; i < len(toks); i++ {
			t := toks[i]
			if t == "|" || t == ";" {
				d.Alts = append(d.Alts, cur)
				cur = gram.SAlt{}
				if t == ";" {
					i++
					break
				}
				continue
			}
			switch {
			case t[0] == '"':
				cur.Body = append(cur.Body, gram.Sym{Kind: gram.SStr, Name: t[1 : len(t)-1]})
			case unicode.IsUpper(rune(t[0])):
				cur.Body = append(cur.Body, gram.Sym{Kind: gram.SNT, Name: t})
			default:
				cur.Body = append(cur.Body, gram.Sym{Kind: gram.STok, Name: t})
			}
		}
		g.NTs = append(g.NTs, d)
	}
	// the spec's "error"/"empty" are literal terminals: keep them out of the pseudo-symbol handling
	for _, d := range g.NTs {
		for ai := range d.Alts {
			for si := range d.Alts[ai].Body {
				s := &d.Alts[ai].Body[si]
				if s.Kind == gram.SStr && (s.Name == "error" || s.Name == "empty") {
					s.Name = "kw:" + s.Name
				}
			}
		}
	}
	cfg, err := NewCFG(g)
	if err != nil {
		return nil, err
	}
	return &MSpec{G: g, CFG: cfg, Earley: NewEarley(cfg)}, nil
}

// TermName maps a front-end token type to the spec's terminal name.
func SpecTermName(typ string) string {
	if typ == "error" || typ == "empty" {
		return "kw:" + typ
	}
	return typ
}

// Accepts reports whether a sequence of front-end token types is a sentence of the spec.
func (m *MSpec) Accepts(types []string) bool {
	ids := make([]int, len(types))
	for i, t := range types {
		id, ok := m.CFG.TermID(SpecTermName(t))
		if !ok {
			return false
		}
		ids[i] = id
	}
	return m.Earley.Accepts(ids)
}
