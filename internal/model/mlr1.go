package model

import (
	"fmt"
	"sort"
	"strings"

	"github.com/goccmack/gocc/verifx/internal/gram"
)

// M-LR1: textbook canonical LR(1) (no state merging), written from the Dragon book, not
// from gocc. Per (state, terminal) it keeps the *set* of competing actions.

type lrItem struct {
	prod, dot, la int32
}

type ActKind int

const (
	AShift ActKind = iota
	AReduce
	AAccept
)

type LAct struct {
	Kind ActKind
	Arg  int // AShift: target state; AReduce: production index
}

func (a LAct) String() string {
	switch a.Kind {
	case AShift:
		return fmt.Sprintf("shift(%d)", a.Arg)
	case AReduce:
		return fmt.Sprintf("reduce(%d)", a.Arg)
	}
	return "accept"
}

type LR1 struct {
	C        *CFG
	nullable []bool
	first    []map[int]bool // per nonterminal
	states   [][]lrItem     // closed item sets
	index    map[string]int
	Goto     []map[int]int // state -> symbol -> state
	Acts     [][][]LAct    // state -> terminal -> competing actions (distinct)
	Resolved [][]*LAct     // state -> terminal -> the single action after the -a rule (nil: error)
}

const MaxLRStates = 4000

func (l *LR1) NumStates() int { return len(l.states) }

func (l *LR1) firstOfSeq(seq []int, la int32) map[int]bool {
	out := map[int]bool{}
	for _, s := range seq {
		if l.C.IsTerm(s) {
			out[s] = true
			return out
		}
		nt := l.C.NTIndex(s)
		for t := range l.first[nt] {
			out[t] = true
		}
		if !l.nullable[nt] {
			return out
		}
	}
	out[int(la)] = true
	return out
}

func (l *LR1) closure(kernel []lrItem) []lrItem {
	has := map[lrItem]bool{}
	items := append([]lrItem(nil), kernel...)
	for _, it := range items {
		has[it] = true
	}
	for k := 0; k < len(items); k++ {
		it := items[k]
		body := l.C.Prods[it.prod].Body
		if int(it.dot) >= len(body) {
			continue
		}
		sym := body[it.dot]
		if l.C.IsTerm(sym) {
			continue
		}
		las := l.firstOfSeq(body[it.dot+1:], it.la)
		for _, pi := range l.C.ProdsOf(l.C.NTIndex(sym)) {
			for la := range las {
				ni := lrItem{int32(pi), 0, int32(la)}
				if !has[ni] {
					has[ni] = true
					items = append(items, ni)
				}
			}
		}
	}
	sort.Slice(items, func(i, j int) bool {
		a, b := items[i], items[j]
		if a.prod != b.prod {
			return a.prod < b.prod
		}
		if a.dot != b.dot {
			return a.dot < b.dot
		}
		return a.la < b.la
	})
	return items
}

func itemsKey(items []lrItem) string {
	var sb strings.Builder
	for _, it := range items {
		fmt.Fprintf(&sb, "%d.%d.%d;", it.prod, it.dot, it.la)
	}
	return sb.String()
}

// NewLR1 builds the canonical collection; it fails when the automaton exceeds MaxLRStates.
func NewLR1(c *CFG) (*LR1, error) {
	l := &LR1{C: c, nullable: c.Nullable(), index: map[string]int{}}
	// FIRST sets
	l.first = make([]map[int]bool, len(c.NTs))
	for i := range l.first {
		l.first[i] = map[int]bool{}
	}
	for changed := true; changed; {
		changed = false
		for _, p := range c.Prods {
			for _, s := range p.Body {
				if c.IsTerm(s) {
					if !l.first[p.Head][s] {
						l.first[p.Head][s] = true
						changed = true
					}
					break
				}
				nt := c.NTIndex(s)
				for t := range l.first[nt] {
					if !l.first[p.Head][t] {
						l.first[p.Head][t] = true
						changed = true
					}
				}
				if !l.nullable[nt] {
					break
				}
			}
		}
	}
	s0 := l.closure([]lrItem{{0, 0, 0}})
	l.states = append(l.states, s0)
	l.index[itemsKey(s0)] = 0
	l.Goto = append(l.Goto, map[int]int{})
	nsym := len(c.Terms) + len(c.NTs)
	for i := 0; i < len(l.states); i++ {
		for sym := 0; sym < nsym; sym++ {
			var kernel []lrItem
			for _, it := range l.states[i] {
				body := c.Prods[it.prod].Body
				if int(it.dot) < len(body) && body[it.dot] == sym {
					kernel = append(kernel, lrItem{it.prod, it.dot + 1, it.la})
				}
			}
			if len(kernel) == 0 {
				continue
			}
			cl := l.closure(kernel)
			k := itemsKey(cl)
			idx, ok := l.index[k]
			if !ok {
				idx = len(l.states)
				if idx >= MaxLRStates {
					return nil, fmt.Errorf("LR(1) automaton larger than %d states", MaxLRStates)
				}
				l.index[k] = idx
				l.states = append(l.states, cl)
				l.Goto = append(l.Goto, map[int]int{})
			}
			l.Goto[i][sym] = idx
		}
	}
	// action sets
	l.Acts = make([][][]LAct, len(l.states))
	l.Resolved = make([][]*LAct, len(l.states))
	for i, st := range l.states {
		l.Acts[i] = make([][]LAct, len(c.Terms))
		l.Resolved[i] = make([]*LAct, len(c.Terms))
		add := func(t int, a LAct) {
			for _, x := range l.Acts[i][t] {
				if x == a {
					return
				}
			}
			l.Acts[i][t] = append(l.Acts[i][t], a)
		}
		for _, it := range st {
			body := c.Prods[it.prod].Body
			if int(it.dot) < len(body) {
				sym := body[it.dot]
				if c.IsTerm(sym) {
					add(sym, LAct{AShift, l.Goto[i][sym]})
				}
				continue
			}
			if it.prod == 0 {
				if it.la == 0 {
					add(0, LAct{AAccept, 0})
				}
				continue
			}
			add(int(it.la), LAct{AReduce, int(it.prod)})
		}
		for t := range l.Acts[i] {
			l.Resolved[i][t] = resolve(l.Acts[i][t])
		}
	}
	return l, nil
}

// resolve applies the rule of C05: shift if a shift competes, otherwise the reduction
// by the production declared first. Accept only survives alone.
func resolve(acts []LAct) *LAct {
	if len(acts) == 0 {
		return nil
	}
	var best *LAct
	for i := range acts {
		a := acts[i]
		switch {
		case best == nil:
			best = &acts[i]
		case a.Kind == AShift && best.Kind != AShift:
			best = &acts[i]
		case a.Kind == AReduce && best.Kind == AReduce && a.Arg < best.Arg:
			best = &acts[i]
		case a.Kind == AAccept && best.Kind == AAccept:
		}
	}
	r := *best
	return &r
}

type LRClass int

const (
	ClassClean        LRClass = iota // no competing actions anywhere
	ClassConflict                    // shift/reduce and/or reduce/reduce only
	ClassAcceptReduce                // some entry pits accept against a reduction (or shift)
)

// ConflictEntry is one (state, terminal) with competing actions.
type ConflictEntry struct {
	State, Term int
	Acts        []LAct
}

func (l *LR1) Classify() (LRClass, []ConflictEntry) {
	cls := ClassClean
	var out []ConflictEntry
	for i := range l.Acts {
		for t, as := range l.Acts[i] {
			if len(as) < 2 {
				continue
			}
			out = append(out, ConflictEntry{i, t, as})
			hasAcc := false
			for _, a := range as {
				if a.Kind == AAccept {
					hasAcc = true
				}
			}
			if hasAcc {
				cls = ClassAcceptReduce
			} else if cls == ClassClean {
				cls = ClassConflict
			}
		}
	}
	return cls, out
}

// NumEntries counts (state, terminal) pairs of the table (coverage denominator).
func (l *LR1) NumEntries() int { return len(l.states) * len(l.C.Terms) }

// CanShiftError reports whether state s has a shift on the error pseudo terminal.
func (l *LR1) CanShiftError(s int) bool {
	if l.C.ErrTerm < 0 {
		return false
	}
	a := l.Resolved[s][l.C.ErrTerm]
	return a != nil && a.Kind == AShift
}

// ---------- interpreter ----------

// Attr is an abstract attribute value: a token (by scan index), a node created by a
// recorder action, nil, or an error attribute.
type Attr struct {
	Kind byte // 't', 'n', '0', 'e'
	Idx  int
	Err  *ErrAttr
}

type ErrAttr struct {
	Tok  int
	Syms []Attr
}

func (a Attr) String() string {
	switch a.Kind {
	case 't':
		return fmt.Sprintf("t%d", a.Idx)
	case 'n':
		return fmt.Sprintf("n%d", a.Idx)
	case '0':
		return "nil"
	case 'e':
		var ss []string
		for _, s := range a.Err.Syms {
			ss = append(ss, s.String())
		}
		return fmt.Sprintf("E(t%d;[%s])", a.Err.Tok, strings.Join(ss, ","))
	}
	return "?"
}

type ParseOpts struct {
	FailAt   int // index (0-based) of the recorder call that returns an error; -1 none
	MaxSteps int // 0: default
}

type ParseResult struct {
	Accepted      bool
	Log           string   // event log in the format of the recorder (see templates/tr)
	Reductions    []int    // production indices in order
	ErrTok        int      // scan index of the token reported with a failure; -1 when accepted
	Expected      []string // names of the terminals with an entry in the row where the error was raised
	Custom        bool     // failure caused by an action error
	StepsExceeded bool     // the reference itself hit its step bound: inconclusive unless Diverges
	Diverges      bool     // with StepsExceeded: proven never to terminate (a reduction cycle that consumes no input)
	Recoveries    int      // number of successful recoveries
	ErrorShifts   int      // number of times the error symbol was shifted (recovered or not)
	Scans         int      // Scan calls made
	MaxDepth      int      // deepest parse stack reached
	Touched       map[[2]int]bool
}

// Parse interprets the resolved table on a terminal-id sequence (without the end marker),
// executing the grammar's actions abstractly and applying the recovery rule of C07 when the
// grammar has error alternatives.
func (l *LR1) Parse(toks []int, o ParseOpts) ParseResult {
	c := l.C
	res := ParseResult{ErrTok: -1, Touched: map[[2]int]bool{}}
	maxSteps := o.MaxSteps
	if maxSteps == 0 {
		maxSteps = 20000 + 200*len(toks)
	}
	var log []string
	states := []int{0}
	attrs := []Attr{{Kind: '0'}}
	scanIdx := -1
	tokAt := func(i int) int {
		if i < len(toks) {
			return toks[i]
		}
		return 0
	}
	// configurations (top state, stack height) since the last scan or recovery: the machine is
	// deterministic and the look-ahead fixed, so if a top state recurs at a height not below the
	// earlier one and the stack never shrank below the earlier height in between, the same moves
	// repeat for ever.
	type conf struct{ top, h int }
	var since []conf
	scan := func() {
		scanIdx++
		res.Scans++
		log = append(log, fmt.Sprintf("s%d", scanIdx))
		since = since[:0]
	}
	scan()
	nodes, calls := 0, 0
	fail := func(top int) ParseResult {
		res.ErrTok = scanIdx
		for t, a := range l.Resolved[top] {
			if a != nil {
				res.Expected = append(res.Expected, c.Terms[t])
			}
		}
		sort.Strings(res.Expected)
		res.Log = strings.Join(log, " ")
		return res
	}
	for steps := 0; ; steps++ {
		if steps > maxSteps {
			res.StepsExceeded = true
			if n := len(since); n > 1 {
				last, minH := since[n-1], since[n-1].h
				for i := n - 2; i >= 0; i-- {
					if since[i].top == last.top && since[i].h <= minH {
						res.Diverges = true
						break
					}
					if since[i].h < minH {
						minH = since[i].h
					}
				}
			}
			res.Log = strings.Join(log, " ")
			return res
		}
		top := states[len(states)-1]
		since = append(since, conf{top, len(states)})
		if len(states) > res.MaxDepth {
			res.MaxDepth = len(states)
		}
		la := tokAt(scanIdx)
		res.Touched[[2]int{top, la}] = true
		act := l.Resolved[top][la]
		if act == nil {
			// syntax error
			errTok := scanIdx
			rs := -1
			for k := len(states) - 1; k >= 0; k-- {
				if l.CanShiftError(states[k]) {
					rs = k
					break
				}
			}
			if rs < 0 {
				return fail(top)
			}
			discarded := append([]Attr(nil), attrs[rs+1:]...)
			states = states[:rs+1]
			attrs = attrs[:rs+1]
			es := l.Resolved[states[rs]][c.ErrTerm].Arg
			states = append(states, es)
			attrs = append(attrs, Attr{Kind: 'e', Err: &ErrAttr{Tok: errTok, Syms: discarded}})
			res.ErrorShifts++
			recovered := false
			for {
				cur := tokAt(scanIdx)
				res.Touched[[2]int{es, cur}] = true
				if l.Resolved[es][cur] != nil {
					recovered = true
					break
				}
				if cur == 0 {
					break
				}
				scan()
			}
			if !recovered {
				// the error is returned; it names the offending token
				res.ErrTok = errTok
				for t, a := range l.Resolved[es] {
					if a != nil {
						res.Expected = append(res.Expected, c.Terms[t])
					}
				}
				sort.Strings(res.Expected)
				res.Log = strings.Join(log, " ")
				return res
			}
			res.Recoveries++
			since = since[:0]
			continue
		}
		switch act.Kind {
		case AAccept:
			res.Accepted = true
			log = append(log, "ret:"+attrs[len(attrs)-1].String())
			res.Log = strings.Join(log, " ")
			return res
		case AShift:
			states = append(states, act.Arg)
			attrs = append(attrs, Attr{Kind: 't', Idx: scanIdx})
			scan()
		case AReduce:
			p := c.Prods[act.Arg]
			fp := c.Flat[act.Arg]
			n := len(p.Body)
			args := attrs[len(attrs)-n:]
			var val Attr
			switch fp.Act.Kind {
			case gram.ActRec:
				var ds []string
				for _, ar := range fp.Act.Args {
					ds = append(ds, args[ar.Idx].String())
				}
				log = append(log, fmt.Sprintf("r%d(%s)", act.Arg, strings.Join(ds, ",")))
				if calls == o.FailAt {
					res.Custom = true
					res.ErrTok = scanIdx
					res.Log = strings.Join(log, " ")
					return res
				}
				calls++
				val = Attr{Kind: 'n', Idx: nodes}
				nodes++
			default:
				if n == 0 {
					val = Attr{Kind: '0'}
				} else {
					val = args[0]
				}
			}
			res.Reductions = append(res.Reductions, act.Arg)
			states = states[:len(states)-n]
			attrs = attrs[:len(attrs)-n]
			g, ok := l.Goto[states[len(states)-1]][c.NTSym(p.Head)]
			if !ok {
				panic("M-LR1: missing goto")
			}
			states = append(states, g)
			attrs = append(attrs, val)
		}
	}
}
