// Package model holds the reference models, written from the property statements and
// independent of gocc's code.
package model

import (
	"fmt"
	"sort"
	"strings"
	"unicode/utf8"

	"github.com/goccmack/gocc/verifx/internal/gram"
)

// M-LEX: position-set simulation of the lexical part as one NFA, regular definitions
// macro-expanded per use site, lazily determinised over the inputs only.

const (
	NameINVALID = "INVALID"
	NameEOF     = "␚"
)

type lexEdge struct {
	lo, hi rune
	dot    bool
	to     int
}

type lexState struct {
	eps    []int
	edges  []lexEdge
	accept int // index into pats, or -1
}

type lexPat struct {
	name    string
	ignored bool
	strLit  bool
	decl    int // declaration index (string literals come after every declared pattern)
}

type LexModel struct {
	states []lexState
	pats   []lexPat
	start  []int // epsilon-closed initial set

	// lazy DFA
	dfaIndex map[string]int
	dfaSets  [][]int
	dfaTrans map[dfaKey]int

	// coverage
	StatePairs map[dfaKey]bool
}

type dfaKey struct {
	state int
	r     rune
}

// MTok is one lexeme reported by the model.
type MTok struct {
	Name       string // token name, NameINVALID or NameEOF
	Start, End int    // byte offsets: input[Start:End] is the literal
}

type LexResult struct {
	Toks    []MTok   // up to and including the first EOF
	Ignored [][2]int // skipped ignored lexemes, in order
}

// NewLexModel builds the model for g: declared tokens and ignored tokens in declaration
// order, then one pattern per distinct string literal of the syntax part.
func NewLexModel(g *gram.Grammar) (*LexModel, error) {
	m := &LexModel{dfaIndex: map[string]int{}, dfaTrans: map[dfaKey]int{}, StatePairs: map[dfaKey]bool{}}
	regdefs := map[string]*gram.Pattern{}
	for _, d := range g.Lex {
		if d.Kind == gram.DReg {
			regdefs[d.Name] = d.Pat
		}
	}
	newState := func() int {
		m.states = append(m.states, lexState{accept: -1})
		return len(m.states) - 1
	}
	root := newState()
	var build func(p *gram.Pattern, from, to int, depth int) error
	build = func(p *gram.Pattern, from, to int, depth int) error {
		if depth > 64 {
			return fmt.Errorf("regdef recursion too deep (cyclic?)")
		}
		for _, alt := range p.Alts {
			cur := newState()
			m.states[from].eps = append(m.states[from].eps, cur)
			for _, t := range alt.Terms {
				nxt := newState()
				switch t.Kind {
				case gram.TLit, gram.TRange:
					m.states[cur].edges = append(m.states[cur].edges, lexEdge{lo: t.Lo, hi: t.Hi, to: nxt})
				case gram.TDot:
					m.states[cur].edges = append(m.states[cur].edges, lexEdge{dot: true, to: nxt})
				case gram.TRef:
					rp, ok := regdefs[t.Ref]
					if !ok {
						return fmt.Errorf("undefined regdef %s", t.Ref)
					}
					if err := build(rp, cur, nxt, depth+1); err != nil {
						return err
					}
				case gram.TGroup:
					if err := build(t.Sub, cur, nxt, depth); err != nil {
						return err
					}
				case gram.TOpt:
					if err := build(t.Sub, cur, nxt, depth); err != nil {
						return err
					}
					m.states[cur].eps = append(m.states[cur].eps, nxt)
				case gram.TRep:
					// cur -> loop ; loop -(sub)-> loop ; loop -> nxt
					loop := newState()
					m.states[cur].eps = append(m.states[cur].eps, loop)
					if err := build(t.Sub, loop, loop, depth); err != nil {
						return err
					}
					m.states[loop].eps = append(m.states[loop].eps, nxt)
				}
				cur = nxt
			}
			m.states[cur].eps = append(m.states[cur].eps, to)
		}
		return nil
	}
	decl := 0
	addPat := func(name string, ignored, strLit bool, p *gram.Pattern) error {
		idx := len(m.pats)
		m.pats = append(m.pats, lexPat{name: name, ignored: ignored, strLit: strLit, decl: decl})
		decl++
		acc := newState()
		m.states[acc].accept = idx
		return build(p, root, acc, 0)
	}
	for _, d := range g.Lex {
		switch d.Kind {
		case gram.DTok:
			if err := addPat(d.Name, false, false, d.Pat); err != nil {
				return nil, err
			}
		case gram.DIgn:
			if err := addPat(d.Name, true, false, d.Pat); err != nil {
				return nil, err
			}
		}
	}
	for _, s := range g.SyntaxTerminals() {
		if s.Kind == gram.SStr {
			if err := addPat(s.Name, false, true, gram.StrPattern(s.Name)); err != nil {
				return nil, err
			}
		}
	}
	m.start = m.closure([]int{root})
	m.intern(m.start)
	return m, nil
}

func (m *LexModel) closure(set []int) []int {
	seen := map[int]bool{}
	var stack []int
	for _, s := range set {
		if !seen[s] {
			seen[s] = true
			stack = append(stack, s)
		}
	}
	for len(stack) > 0 {
		s := stack[len(stack)-1]
		stack = stack[:len(stack)-1]
		for _, e := range m.states[s].eps {
			if !seen[e] {
				seen[e] = true
				stack = append(stack, e)
			}
		}
	}
	out := make([]int, 0, len(seen))
	for s := range seen {
		out = append(out, s)
	}
	sort.Ints(out)
	return out
}

func (m *LexModel) intern(set []int) int {
	var sb strings.Builder
	for _, s := range set {
		fmt.Fprintf(&sb, "%d,", s)
	}
	k := sb.String()
	if id, ok := m.dfaIndex[k]; ok {
		return id
	}
	id := len(m.dfaSets)
	m.dfaIndex[k] = id
	m.dfaSets = append(m.dfaSets, set)
	return id
}

// step returns the DFA state reached from st on rune r, or -1 when the set dies.
func (m *LexModel) step(st int, r rune) int {
	k := dfaKey{st, r}
	m.StatePairs[k] = true
	if t, ok := m.dfaTrans[k]; ok {
		return t
	}
	var next []int
	listed := false
	for _, s := range m.dfaSets[st] {
		for _, e := range m.states[s].edges {
			if !e.dot && e.lo <= r && r <= e.hi {
				listed = true
				next = append(next, e.to)
			}
		}
	}
	if !listed {
		// '.' moves only on a character no position of the current set explicitly lists
		for _, s := range m.dfaSets[st] {
			for _, e := range m.states[s].edges {
				if e.dot {
					next = append(next, e.to)
				}
			}
		}
	}
	t := -1
	if len(next) > 0 {
		t = m.intern(m.closure(next))
	}
	m.dfaTrans[k] = t
	return t
}

// winner gives the pattern that the priority rule selects among those completed in st.
func (m *LexModel) winner(st int) int {
	best := -1
	for _, s := range m.dfaSets[st] {
		a := m.states[s].accept
		if a < 0 {
			continue
		}
		if best < 0 {
			best = a
			continue
		}
		pa, pb := m.pats[a], m.pats[best]
		switch {
		case pa.strLit && !pb.strLit:
			best = a
		case !pa.strLit && pb.strLit:
		case pa.decl < pb.decl:
			best = a
		}
	}
	return best
}

// NumDFAStates is the number of distinct position sets reached so far.
func (m *LexModel) NumDFAStates() int { return len(m.dfaSets) }

// PatternNames lists token (non-ignored) pattern names in priority-irrelevant declaration order.
func (m *LexModel) PatternNames() (toks, ignored []string) {
	for _, p := range m.pats {
		if p.ignored {
			ignored = append(ignored, p.name)
		} else {
			toks = append(toks, p.name)
		}
	}
	return
}

// Scan runs the scan discipline of C01 from byte offset pos and returns the token and
// the offset after it, appending skipped ignored lexemes to ign.
func (m *LexModel) Scan(input []byte, pos int, ign *[][2]int) (MTok, int) {
	if pos >= len(input) {
		return MTok{Name: NameEOF, Start: pos, End: pos}, pos
	}
	start := pos
	cur := m.intern(m.start)
	lastWin := -1 // winner of the last live set (token pattern), -1 none
	for {
		if pos >= len(input) {
			break
		}
		r, size := utf8.DecodeRune(input[pos:])
		next := m.step(cur, r)
		if next < 0 {
			// r makes the text unmatchable
			if lastWin >= 0 {
				return MTok{Name: m.pats[lastWin].name, Start: start, End: pos}, pos
			}
			return MTok{Name: NameINVALID, Start: start, End: pos + size}, pos + size
		}
		pos += size
		cur = next
		w := m.winner(cur)
		lastWin = -1
		if w >= 0 {
			if m.pats[w].ignored {
				// skipped as soon as it is complete
				if ign != nil {
					*ign = append(*ign, [2]int{start, pos})
				}
				start = pos
				cur = m.intern(m.start)
				if pos >= len(input) {
					return MTok{Name: NameEOF, Start: pos, End: pos}, pos
				}
				continue
			}
			lastWin = w
		}
	}
	// input exhausted while the set was live
	if lastWin >= 0 {
		return MTok{Name: m.pats[lastWin].name, Start: start, End: pos}, pos
	}
	return MTok{Name: NameINVALID, Start: start, End: pos}, pos
}

// Lex tokenises the whole input: every token up to and including the first EOF.
func (m *LexModel) Lex(input []byte) LexResult {
	var res LexResult
	pos := 0
	for {
		t, np := m.Scan(input, pos, &res.Ignored)
		res.Toks = append(res.Toks, t)
		pos = np
		if t.Name == NameEOF {
			return res
		}
		if len(res.Toks) > len(input)+2 {
			panic("M-LEX made no progress")
		}
	}
}
