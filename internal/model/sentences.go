package model

import (
	"math/rand"
)

// SentenceGen produces random sentences (terminal-id sequences) of a CFG by depth-bounded
// random derivation. The pseudo terminal "error" is never produced.
type SentenceGen struct {
	C      *CFG
	minLen  []int // per nonterminal: length of a shortest sentence, or -1 if unproductive
	prodOK  []int // per production: min length, -1 if unusable
	witness []int // per nonterminal: a production whose derivation is well-founded (set on strict decrease only)
}

const inf = 1 << 30

func NewSentenceGen(c *CFG) *SentenceGen {
	g := &SentenceGen{C: c, minLen: make([]int, len(c.NTs)), prodOK: make([]int, len(c.Prods)), witness: make([]int, len(c.NTs))}
	for i := range g.minLen {
		g.minLen[i] = inf
		g.witness[i] = -1
	}
	for changed := true; changed; {
		changed = false
		for pi, p := range c.Prods {
			total := 0
			for _, s := range p.Body {
				if c.IsTerm(s) {
					if s == c.ErrTerm {
						total = inf
						break
					}
					total++
				} else {
					if g.minLen[c.NTIndex(s)] >= inf {
						total = inf
						break
					}
					total += g.minLen[c.NTIndex(s)]
				}
			}
			if total >= inf {
				g.prodOK[pi] = -1
				continue
			}
			g.prodOK[pi] = total
			if total < g.minLen[p.Head] {
				g.minLen[p.Head] = total
				g.witness[p.Head] = pi
				changed = true
			}
		}
	}
	for pi, p := range c.Prods {
		total := 0
		for _, s := range p.Body {
			if c.IsTerm(s) {
				if s == c.ErrTerm {
					total = inf
					break
				}
				total++
			} else if g.minLen[c.NTIndex(s)] >= inf {
				total = inf
				break
			} else {
				total += g.minLen[c.NTIndex(s)]
			}
		}
		if total >= inf {
			g.prodOK[pi] = -1
		} else {
			g.prodOK[pi] = total
		}
	}
	return g
}

// HasSentence reports whether the language is non-empty.
func (g *SentenceGen) HasSentence() bool { return g.minLen[0] < inf }

// Shortest returns one shortest sentence.
func (g *SentenceGen) Shortest() []int {
	if !g.HasSentence() {
		return nil
	}
	var out []int
	var walk func(nt int)
	walk = func(nt int) {
		best := g.witness[nt]
		for _, s := range g.C.Prods[best].Body {
			if g.C.IsTerm(s) {
				out = append(out, s)
			} else {
				walk(g.C.NTIndex(s))
			}
		}
	}
	walk(0)
	return out
}

// Random derives a sentence by random expansion; once the output reaches target tokens (or
// the derivation gets deep) every nonterminal is closed with its well-founded witness production.
func (g *SentenceGen) Random(r *rand.Rand, target int) []int {
	if !g.HasSentence() {
		return nil
	}
	var out []int
	steps := 0
	var walk func(nt int, depth int)
	walk = func(nt int, depth int) {
		pi := g.witness[nt]
		steps++
		if depth <= 25+target && steps < 3000+20*target && len(out) < target && len(out) < 200+target {
			var usable, growing []int
			for _, q := range g.C.ProdsOf(nt) {
				if g.prodOK[q] >= 0 {
					usable = append(usable, q)
					for _, s := range g.C.Prods[q].Body {
						if !g.C.IsTerm(s) {
							growing = append(growing, q)
							break
						}
					}
				}
			}
			pi = usable[r.Intn(len(usable))]
			// far from the target: prefer alternatives that keep the derivation going
			if len(growing) > 0 && target > 30 && len(out) < target/2 && r.Intn(100) < 97 {
				pi = growing[r.Intn(len(growing))]
			}
		}
		for _, s := range g.C.Prods[pi].Body {
			if g.C.IsTerm(s) {
				out = append(out, s)
				continue
			}
			walk(g.C.NTIndex(s), depth+1)
		}
	}
	walk(0, 0)
	return out
}

// LongSentences returns up to n distinct sentences of at least minLen tokens (deep parse
// stacks: nesting and right recursion drive the LR stack past its initial capacity).
func LongSentences(r *rand.Rand, c *CFG, n, minLen int) [][]int {
	sg := NewSentenceGen(c)
	if !sg.HasSentence() {
		return nil
	}
	seen := map[string]bool{}
	var out [][]int
	for tries := 0; tries < n*30 && len(out) < n; tries++ {
		s := sg.Random(r, minLen+r.Intn(minLen))
		if len(s) < minLen || len(s) > 4000 {
			continue
		}
		k := keyOf(s)
		if !seen[k] {
			seen[k] = true
			out = append(out, s)
		}
	}
	return out
}

// DeepSentences returns up to n distinct sentences on which the reference parser's stack
// grows to at least minDepth entries (nesting / right recursion; left-recursive lists stay flat).
func DeepSentences(r *rand.Rand, lr *LR1, n, minDepth int) [][]int {
	sg := NewSentenceGen(lr.C)
	if !sg.HasSentence() {
		return nil
	}
	seen := map[string]bool{}
	var out [][]int
	for tries := 0; tries < 60 && len(out) < n; tries++ {
		s := sg.Random(r, minDepth+r.Intn(3*minDepth))
		if len(s) < minDepth || len(s) > 3000 {
			continue
		}
		k := keyOf(s)
		if seen[k] {
			continue
		}
		seen[k] = true
		m := lr.Parse(s, ParseOpts{FailAt: -1})
		if m.Accepted && m.MaxDepth >= minDepth {
			out = append(out, s)
		}
	}
	return out
}

// InputPool builds a set of distinct token sequences for a grammar: sentences, every
// prefix of a sentence followed by every terminal, mutants, short exhaustive strings and
// random strings. Terminal id 0 (end of input) and the error pseudo terminal never occur.
func InputPool(r *rand.Rand, c *CFG, want int, exhaustLen int) [][]int {
	sg := NewSentenceGen(c)
	var alphabet []int
	for t := 1; t < len(c.Terms); t++ {
		if t != c.ErrTerm {
			alphabet = append(alphabet, t)
		}
	}
	seen := map[string]bool{}
	var pool [][]int
	add := func(s []int) {
		if len(s) > 60 {
			s = s[:60]
		}
		k := keyOf(s)
		if !seen[k] {
			seen[k] = true
			pool = append(pool, append([]int(nil), s...))
		}
	}
	add(nil)
	if len(alphabet) == 0 {
		return pool
	}
	// short exhaustive strings
	if exhaustLen > 0 {
		var rec func(prefix []int, depth int)
		total := 0
		rec = func(prefix []int, depth int) {
			if total > want/2 {
				return
			}
			add(prefix)
			total++
			if depth == exhaustLen {
				return
			}
			for _, t := range alphabet {
				rec(append(prefix, t), depth+1)
			}
		}
		rec(nil, 0)
	}
	var sentences [][]int
	if sg.HasSentence() {
		sh := sg.Shortest()
		sentences = append(sentences, sh)
		add(sh)
		for i := 0; i < want/4+4; i++ {
			s := sg.Random(r, 2+r.Intn(14))
			sentences = append(sentences, s)
			add(s)
		}
	}
	// every prefix of some sentences followed by every terminal
	for i := 0; i < len(sentences) && len(pool) < want*3/4; i++ {
		s := sentences[i]
		for p := 0; p <= len(s) && p <= 12; p++ {
			add(s[:p])
			for _, t := range alphabet {
				add(append(append([]int(nil), s[:p]...), t))
			}
		}
	}
	// mutants and random strings
	for tries := 0; len(pool) < want && tries < want*20; tries++ {
		switch r.Intn(4) {
		case 0, 1:
			if len(sentences) == 0 {
				continue
			}
			s := append([]int(nil), sentences[r.Intn(len(sentences))]...)
			for e := 1 + r.Intn(2); e > 0; e-- {
				switch r.Intn(3) {
				case 0:
					if len(s) > 0 {
						i := r.Intn(len(s))
						s = append(s[:i], s[i+1:]...)
					}
				case 1:
					i := r.Intn(len(s) + 1)
					s = append(s[:i], append([]int{alphabet[r.Intn(len(alphabet))]}, s[i:]...)...)
				case 2:
					if len(s) > 0 {
						s[r.Intn(len(s))] = alphabet[r.Intn(len(alphabet))]
					}
				}
			}
			add(s)
		case 2:
			n := r.Intn(8)
			s := make([]int, n)
			for i := range s {
				s[i] = alphabet[r.Intn(len(alphabet))]
			}
			add(s)
		case 3:
			if len(sentences) == 0 {
				continue
			}
			a, b := sentences[r.Intn(len(sentences))], sentences[r.Intn(len(sentences))]
			add(append(append([]int(nil), a...), b...))
		}
	}
	return pool
}

func keyOf(s []int) string {
	b := make([]byte, 0, len(s)*2)
	for _, x := range s {
		b = append(b, byte(x), byte(x>>8))
	}
	return string(b)
}
