package model

import "unicode/utf8"

// M-POS: line and column of a byte offset, recomputed from the raw input exactly as C08
// states it: line = 1 + newlines before the offset; column = 1 + advance since the last
// carriage return or newline, four per tab and one per other decoded character.
func PosOf(input []byte, off int) (line, col int) {
	line, col = 1, 1
	for i := 0; i < off && i < len(input); {
		r, size := utf8.DecodeRune(input[i:])
		switch r {
		case '\n':
			line++
			col = 1
		case '\r':
			col = 1
		case '\t':
			col += 4
		default:
			col++
		}
		i += size
	}
	return
}
