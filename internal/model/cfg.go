package model

import (
	"fmt"

	"github.com/goccmack/gocc/verifx/internal/gram"
)

// CFG is the syntax part in numeric form. Symbols 0..NT-1 are terminals (0 is end of
// input), NT.. are nonterminals. Production 0 is the augmented S' : Start.
type CFG struct {
	Terms   []string // Terms[0] == NameEOF
	NTs     []string // NTs[0] == "S'"
	Prods   []CProd
	ErrTerm int // id of the pseudo terminal "error", or -1
	Flat    []gram.FlatProd
	termID  map[string]int
	ntID    map[string]int
	byHead  [][]int // nonterminal index -> production indices
}

type CProd struct {
	Head int   // nonterminal index (0 == S')
	Body []int // symbol ids
}

func (c *CFG) NumT() int           { return len(c.Terms) }
func (c *CFG) IsTerm(sym int) bool { return sym < len(c.Terms) }
func (c *CFG) NTIndex(sym int) int { return sym - len(c.Terms) }
func (c *CFG) NTSym(nt int) int    { return nt + len(c.Terms) }
func (c *CFG) ProdsOf(nt int) []int { return c.byHead[nt] }

func (c *CFG) TermID(name string) (int, bool) {
	id, ok := c.termID[name]
	return id, ok
}

func (c *CFG) SymName(sym int) string {
	if c.IsTerm(sym) {
		return c.Terms[sym]
	}
	return c.NTs[c.NTIndex(sym)]
}

func (c *CFG) ProdString(p int) string {
	s := c.NTs[c.Prods[p].Head] + " :"
	if len(c.Prods[p].Body) == 0 {
		return s + " empty"
	}
	for _, b := range c.Prods[p].Body {
		s += " " + c.SymName(b)
	}
	return s
}

// NewCFG numbers the syntax part of g. A nonterminal used but never defined is an error
// (gocc rejects such grammars; the generators never produce them on purpose).
func NewCFG(g *gram.Grammar) (*CFG, error) {
	flat := g.Flat()
	if flat == nil {
		return nil, fmt.Errorf("no syntax part")
	}
	c := &CFG{Terms: []string{NameEOF}, termID: map[string]int{NameEOF: 0}, ntID: map[string]int{}, ErrTerm: -1, Flat: flat}
	for _, fp := range flat {
		if _, ok := c.ntID[fp.Head]; !ok {
			c.ntID[fp.Head] = len(c.NTs)
			c.NTs = append(c.NTs, fp.Head)
		}
	}
	for _, fp := range flat {
		for _, s := range fp.Body {
			if s.Kind == gram.SNT {
				if _, ok := c.ntID[s.Name]; !ok {
					return nil, fmt.Errorf("undefined nonterminal %s", s.Name)
				}
				continue
			}
			if _, ok := c.termID[s.Name]; !ok {
				c.termID[s.Name] = len(c.Terms)
				c.Terms = append(c.Terms, s.Name)
			}
		}
	}
	if id, ok := c.termID["error"]; ok {
		c.ErrTerm = id
	}
	c.byHead = make([][]int, len(c.NTs))
	for i, fp := range flat {
		p := CProd{Head: c.ntID[fp.Head]}
		for _, s := range fp.Body {
			if s.Kind == gram.SNT {
				p.Body = append(p.Body, c.NTSym(c.ntID[s.Name]))
			} else {
				p.Body = append(p.Body, c.termID[s.Name])
			}
		}
		c.Prods = append(c.Prods, p)
		c.byHead[p.Head] = append(c.byHead[p.Head], i)
	}
	return c, nil
}

// Nullable computes which nonterminals derive the empty string.
func (c *CFG) Nullable() []bool {
	n := make([]bool, len(c.NTs))
	for changed := true; changed; {
		changed = false
		for _, p := range c.Prods {
			if n[p.Head] {
				continue
			}
			all := true
			for _, s := range p.Body {
				if c.IsTerm(s) || !n[c.NTIndex(s)] {
					all = false
					break
				}
			}
			if all {
				n[p.Head] = true
				changed = true
			}
		}
	}
	return n
}

// Productive computes which nonterminals derive some terminal string ("error" counts as
// an ordinary terminal here).
func (c *CFG) Productive() []bool {
	n := make([]bool, len(c.NTs))
	for changed := true; changed; {
		changed = false
		for _, p := range c.Prods {
			if n[p.Head] {
				continue
			}
			all := true
			for _, s := range p.Body {
				if !c.IsTerm(s) && !n[c.NTIndex(s)] {
					all = false
					break
				}
			}
			if all {
				n[p.Head] = true
				changed = true
			}
		}
	}
	return n
}

// Reachable computes which nonterminals are reachable from S'.
func (c *CFG) Reachable() []bool {
	r := make([]bool, len(c.NTs))
	r[0] = true
	stack := []int{0}
	for len(stack) > 0 {
		nt := stack[len(stack)-1]
		stack = stack[:len(stack)-1]
		for _, pi := range c.byHead[nt] {
			for _, s := range c.Prods[pi].Body {
				if !c.IsTerm(s) && !r[c.NTIndex(s)] {
					r[c.NTIndex(s)] = true
					stack = append(stack, c.NTIndex(s))
				}
			}
		}
	}
	return r
}

// AllProductive reports whether every nonterminal is productive (the grammar is
// "reduced" in the sense C06 needs: every viable Earley item can be completed).
func (c *CFG) AllProductive() bool {
	for _, ok := range c.Productive() {
		if !ok {
			return false
		}
	}
	return true
}
