package camp

import "unicode/utf8"

func decodeRune(b []byte) (rune, int) { return utf8.DecodeRune(b) }

// corpusLexJobs: the repository's own grammars as IR (filled in by corpus.go when available).
func corpusLexJobs(startIndex int) []*GenJob { return nil }
