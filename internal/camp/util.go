package camp

import "unicode/utf8"

func decodeRune(b []byte) (rune, int) { return utf8.DecodeRune(b) }

