package camp

import (
	"fmt"
	"math/rand"
	"sort"
	"strings"

	"github.com/goccmack/gocc/verifx/internal/gram"
	"github.com/goccmack/gocc/verifx/internal/model"
	"github.com/goccmack/gocc/verifx/internal/run"
)

// SynJob is a grammar with a syntax part together with its reference models.
type SynJob struct {
	*GenJob
	CFG    *model.CFG
	LR     *model.LR1
	Class  model.LRClass
	Confl  []model.ConflictEntry
	Earley *model.Earley
	Inputs [][]int
}

// NewSynJob prepares models for g. The grammar must already carry its actions; the
// harness header is installed here because it depends on the job name.
func NewSynJob(name string, g *gram.Grammar, flags []string) (*SynJob, error) {
	cfg, err := model.NewCFG(g)
	if err != nil {
		return nil, err
	}
	lr, err := model.NewLR1(cfg)
	if err != nil {
		return nil, err
	}
	gram.SetHarnessHeader(g, run.ModPath, name)
	j := &SynJob{GenJob: &GenJob{Name: name, G: g, Flags: flags}, CFG: cfg, LR: lr, Earley: model.NewEarley(cfg)}
	j.Class, j.Confl = lr.Classify()
	return j, nil
}

func (j *SynJob) Names(toks []int) []string {
	out := make([]string, len(toks))
	for i, t := range toks {
		out[i] = j.CFG.Terms[t]
	}
	return out
}

func (j *SynJob) IDs(names []string) ([]int, bool) {
	out := make([]int, len(names))
	for i, n := range names {
		id, ok := j.CFG.TermID(n)
		if !ok {
			return nil, false
		}
		out[i] = id
	}
	return out, true
}

// synFilter selects grammars for a campaign.
type synFilter struct {
	class      func(cls model.LRClass) bool
	withErrors bool
	ambiguous  bool
	productive bool // all nonterminals productive
	nonEmpty   bool // the language has at least one sentence
	actionMode int
	flags      func(i int) []string
	simpleLex  bool
	family     func(i int) string // template family for the i-th grammar ("" = random)
	noStrLits  func(i int) bool   // named tokens only (expected-token lists made of identifiers)
	actionModeOf func(i int) int  // overrides actionMode per grammar
}

// genSynJobs generates n grammars passing the filter (deterministic in rng).
func genSynJobs(rng *rand.Rand, n int, prefix string, f synFilter) []*SynJob {
	var jobs []*SynJob
	for tries := 0; len(jobs) < n && tries < n*60; tries++ {
		o := gram.SynGenOpts{WithErrors: f.withErrors, Ambiguous: f.ambiguous}
		if f.family != nil {
			o.Family = f.family(len(jobs))
		}
		if f.noStrLits != nil {
			o.NoStrLits = f.noStrLits(len(jobs))
		}
		g := gram.GenSyntax(rng, o)
		mode := f.actionMode
		if f.actionModeOf != nil {
			mode = f.actionModeOf(len(jobs))
		}
		gram.AssignActions(rng, g, mode)
		if f.simpleLex {
			gram.AddSimpleLex(g)
		}
		name := fmt.Sprintf("%s%04d", prefix, len(jobs))
		var flags []string
		if f.flags != nil {
			flags = f.flags(len(jobs))
		}
		j, err := NewSynJob(name, g, flags)
		if err != nil {
			continue
		}
		if f.class != nil && !f.class(j.Class) {
			continue
		}
		if f.productive && !j.CFG.AllProductive() {
			continue
		}
		if f.nonEmpty && !model.NewSentenceGen(j.CFG).HasSentence() {
			continue
		}
		if f.withErrors != g.HasErrorAlts() {
			continue // error alternatives exactly when the campaign asks for them (C02/C05/C06 exclude them, C07 requires them)
		}
		jobs = append(jobs, j)
	}
	return jobs
}

func genJobsOf(js []*SynJob) []*GenJob {
	out := make([]*GenJob, len(js))
	for i, j := range js {
		out[i] = j.GenJob
	}
	return out
}

// selfCheck cross-validates M-LR1 against M-EARLEY on a conflict-free grammar without
// error alternatives; a disagreement is a harness bug and makes the run inconclusive.
func (j *SynJob) selfCheck(inputs [][]int) error {
	if j.Class != model.ClassClean || j.G.HasErrorAlts() {
		return nil
	}
	for _, in := range inputs {
		a := j.Earley.Accepts(in)
		r := j.LR.Parse(in, model.ParseOpts{FailAt: -1})
		if r.StepsExceeded {
			continue
		}
		if a != r.Accepted {
			return fmt.Errorf("harness self-check: M-EARLEY accepted=%v but M-LR1 accepted=%v on %v of\n%s", a, r.Accepted, j.Names(in), j.G.Render(nil))
		}
	}
	return nil
}

// coverage of M-LR1 entries by a set of model runs
type lrCoverage struct {
	touched map[string]map[[2]int]bool
	total   map[string]int
}

func newLRCoverage() *lrCoverage {
	return &lrCoverage{touched: map[string]map[[2]int]bool{}, total: map[string]int{}}
}

func (lc *lrCoverage) add(j *SynJob, t map[[2]int]bool) {
	m := lc.touched[j.Name]
	if m == nil {
		m = map[[2]int]bool{}
		lc.touched[j.Name] = m
		lc.total[j.Name] = j.LR.NumEntries()
	}
	for k := range t {
		m[k] = true
	}
}

func (lc *lrCoverage) report(c *Ctx) {
	tot, tch := 0, 0
	for n, m := range lc.touched {
		tot += lc.total[n]
		tch += len(m)
	}
	c.Set("model_lr1_entries_total", tot)
	c.Set("model_lr1_entries_touched", tch)
}

func fullLog(p *DPResult) string {
	switch p.End {
	case "ret":
		if p.Log == "" {
			return "ret:" + p.Val
		}
		return p.Log + " ret:" + p.Val
	}
	return p.Log
}

func reductionsOf(log string) []string {
	var out []string
	for _, f := range strings.Fields(log) {
		if strings.HasPrefix(f, "r") && !strings.HasPrefix(f, "ret:") {
			out = append(out, f)
		}
	}
	return out
}

func sortedCopy(s []string) []string {
	o := append([]string(nil), s...)
	sort.Strings(o)
	return o
}

func sameSet(a, b []string) bool {
	x, y := sortedCopy(a), sortedCopy(b)
	x, y = uniq(x), uniq(y)
	if len(x) != len(y) {
		return false
	}
	for i := range x {
		if x[i] != y[i] {
			return false
		}
	}
	return true
}

func uniq(s []string) []string {
	var o []string
	for i, x := range s {
		if i == 0 || x != s[i-1] {
			o = append(o, x)
		}
	}
	return o
}

func hasDup(s []string) bool {
	x := sortedCopy(s)
	for i := 1; i < len(x); i++ {
		if x[i] == x[i-1] {
			return true
		}
	}
	return false
}

// noConflictLine reports whether gocc announced conflicts on stdout.
func conflictLine(stdout string) bool {
	return strings.Contains(stdout, "LR-1 conflicts")
}
