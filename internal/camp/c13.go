package camp

import (
	"fmt"
	"math/rand"
	"os"
	"path/filepath"

	"github.com/goccmack/gocc/verifx/internal/gram"
	"github.com/goccmack/gocc/verifx/internal/run"
)

func init() {
	register(&Campaign{ID: "C13", NeedsWorkspace: true, Run: runC13, Replay: replayC13})
}

// twinModules creates two sub directories, each its own module with the same module path,
// so that the same -o name yields the same package path in both.
func twinModules(c *Ctx) error {
	for _, sub := range []string{"ma", "mb"} {
		d := filepath.Join(c.W.Dir, sub)
		if err := os.MkdirAll(d, 0777); err != nil {
			return err
		}
		if err := os.WriteFile(filepath.Join(d, "go.mod"), []byte("module "+run.ModPath+"\n\ngo 1.24\n"), 0666); err != nil {
			return err
		}
	}
	return nil
}

func runC13(c *Ctx) error {
	n := c.Pick(150, 3000)
	c.Rule = "grammars with lexical and syntax parts rendered twice from one IR: canonical text vs a respelling with random layout (spaces, tabs, CR/LF, // and /* */ comments between any two tokens), random but equivalent character-literal spellings (raw, \\x, octal, \\u, \\U, named escapes, both hex cases) and random string quoting; both are generated with -a into identically named directories of two modules with the same module path; all generated .go files must be byte-identical; one evaluation = one pair; non-trivial = the two texts differ and gocc wrote at least 5 files; distinct by respelled text"
	c.Assumptions = []string{"the renderer only varies what C13 lists (layout, literal spelling, quoting style)", "action text and file header are left untouched"}
	if err := twinModules(c); err != nil {
		return err
	}
	type pair struct {
		g    *gram.Grammar
		a, b string
	}
	pairs := make([]pair, n)
	for i := range pairs {
		g := richGrammar(c.Rng)
		if c.Rng.Intn(3) == 0 {
			// a string literal whose content is delicate in one of the two quoting styles
			respellStringLit(g, quoteSensitive[c.Rng.Intn(len(quoteSensitive))])
		}
		rr := rand.New(rand.NewSource(c.Rng.Int63()))
		o := &gram.RenderOpts{R: rr, RandLayout: rr.Intn(4) > 0, RandLit: rr.Intn(4) > 0, RandQuote: rr.Intn(2) == 0, NoTrailingN: rr.Intn(3) == 0}
		if !o.RandLayout && !o.RandLit {
			o.RandLayout = true
		}
		pairs[i] = pair{g, g.Render(nil), g.Render(o)}
	}
	run.Parallel(n, func(i int) {
		p := pairs[i]
		spellPair(c, p.g, p.a, p.b, fmt.Sprintf("g%05d", i), i%499 == 0)
	})
	return nil
}

// contents that both quoting styles can hold but that end or start with an escaped delimiter,
// contain backslashes, or look like escapes (gocc takes them verbatim)
var quoteSensitive = []string{`\"`, `a\"`, `\"b`, `\\`, `\n`, `x\ty`, `%\"`, `\'`, `'`, `\"\"`}

// respellStringLit renames one string-literal terminal of g to content, everywhere it occurs.
func respellStringLit(g *gram.Grammar, content string) {
	old := ""
	for _, s := range g.SyntaxTerminals() {
		if s.Kind == gram.SStr {
			if s.Name == content {
				return
			}
			if old == "" {
				old = s.Name
			}
		}
	}
	if old == "" {
		return
	}
	for _, d := range g.NTs {
		for ai := range d.Alts {
			for si := range d.Alts[ai].Body {
				sy := &d.Alts[ai].Body[si]
				if sy.Kind == gram.SStr && sy.Name == old {
					sy.Name = content
				}
			}
		}
	}
}

func spellPair(c *Ctx, g *gram.Grammar, a, b, name string, sample bool) {
	ra := c.W.RunGocc(name, []byte(a), run.GoccOpts{Flags: []string{"-a"}, WorkSub: "ma"})
	rb := c.W.RunGocc(name, []byte(b), run.GoccOpts{Flags: []string{"-a"}, WorkSub: "mb"})
	c.Eval(1)
	defer os.RemoveAll(ra.OutDir)
	defer os.RemoveAll(rb.OutDir)
	for _, r := range []run.GoccResult{ra, rb} {
		if r.TimedOut || r.Budget || r.Hook96 || r.CPUKill {
			c.Inconclusive(name + ": gocc run could not be judged")
			return
		}
	}
	oa, ob := observe(ra), observe(rb)
	if a != b && len(oa.Files) >= 5 {
		c.Nontrivial(b)
	}
	if sample {
		c.Sample(map[string]interface{}{"canonical": a, "respelled": b, "files": oa.Files})
	}
	if d := oa.diff(ob); d != "" {
		c.Violation(&Witness{Kind: "c13", Text: a, Text2: b, Expected: oa, Observed: ob,
			Note: "respelled grammar generates different output: " + d + "; stderr: " + trunc(rb.Stderr+rb.Stdout, 300)})
	}
}

func replayC13(c *Ctx, w *Witness) error {
	if err := twinModules(c); err != nil {
		return err
	}
	spellPair(c, nil, w.Text, w.Text2, "g_replay_"+w.Key()[:8], false)
	return nil
}
