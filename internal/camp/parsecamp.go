package camp

import (
	"fmt"
	"math/rand"
	"strings"

	"github.com/goccmack/gocc/verifx/internal/gram"
	"github.com/goccmack/gocc/verifx/internal/model"
)

func init() {
	register(&Campaign{ID: "C02", NeedsWorkspace: true, Run: runC02, Replay: parseReplay})
	register(&Campaign{ID: "C03", NeedsWorkspace: true, Run: runC03, Replay: parseReplay})
	register(&Campaign{ID: "C05", NeedsWorkspace: true, Run: runC05, Replay: parseReplay})
	register(&Campaign{ID: "C06", NeedsWorkspace: true, Run: runC06, Replay: parseReplay})
	register(&Campaign{ID: "C07", NeedsWorkspace: true, Run: runC07, Replay: parseReplay})
}

type parseRef struct {
	job  *SynJob
	toks []int
	fail int
}

// judgeFn returns "" when the case holds, a reason otherwise; trivial=false marks the case non-trivial.
type judgeFn func(c *Ctx, ref *parseRef, p *DPResult) (why string, nontrivial bool, expected interface{})

// runParseBatch: gocc on every job, compile, run every (job, input, fail) case, judge.
func runParseBatch(c *Ctx, jobs []*SynJob, drv string, refs []*parseRef, judge judgeFn, domain func(j *SynJob) string) error {
	gj := genJobsOf(jobs)
	c.GenerateAll(gj, true)
	inDomain := map[string]bool{}
	nOut := 0
	for _, j := range jobs {
		if j.Dropped == "" && domain != nil {
			if why := domain(j); why != "" {
				j.Dropped = why
				c.W.Unregister(j.Name)
			}
		}
		if j.Dropped != "" {
			nOut++
			if j.Res.TimedOut || j.Res.Budget || j.Res.Hook96 {
				c.Inconclusive(j.Name + ": " + j.Dropped)
			}
			continue
		}
		inDomain[j.Name] = true
	}
	c.Set("grammars_generated", len(jobs))
	c.Set("grammars_outside_domain_or_rejected", nOut)
	bin, err := c.BuildDriver(gj, drv, false)
	if err != nil {
		return err
	}
	var cases []*DCase
	var live []*parseRef
	lastFeed := map[string]*DFeed{}
	second := map[int]bool{}
	for _, ref := range refs {
		if ref.job.Dropped != "" {
			if strings.HasPrefix(ref.job.Dropped, "generated code does not compile") {
				c.Inconclusive(ref.job.Name + ": " + ref.job.Dropped)
				ref.job.Dropped = "reported"
			}
			continue
		}
		feed := &DFeed{Toks: ref.job.Names(ref.toks), Fail: ref.fail, Render: len(cases)%2 == 0, Rot: len(cases) % 3}
		if ref.fail >= 0 {
			// a Parse that ends with an action error, then the same input without the failure on
			// the same parser object: the second result must still be the one the grammar gives
			again := *feed
			again.Fail = -1
			cases = append(cases, &DCase{G: ref.job.Name, Op: "session", Items: []*DFeed{feed, &again}})
		} else if prev := lastFeed[ref.job.Name]; prev != nil && len(cases)%4 == 1 {
			// the parser object has a past: the previous input of this grammar (whatever it was -
			// a sentence, a syntax error, a recovered error) is parsed first on the same object;
			// only the second call is judged here
			cases = append(cases, &DCase{G: ref.job.Name, Op: "session", Items: []*DFeed{prev, feed}})
			second[len(cases)-1] = true
		} else {
			cases = append(cases, &DCase{G: ref.job.Name, Op: "parse", Feed: feed})
		}
		lastFeed[ref.job.Name] = feed
		live = append(live, ref)
	}
	if len(cases) == 0 {
		return fmt.Errorf("no parser cases could be built")
	}
	results, err := c.RunCases(bin, cases, 1, nil)
	if err != nil {
		return err
	}
	used := map[string]bool{}
	for i, r := range results {
		ref := live[i]
		c.Eval(1)
		used[ref.job.Name] = true
		var after *DPResult
		if cases[i].Op == "session" && len(r.Ps) == 2 {
			if second[i] {
				r.P = &r.Ps[1]
				c.Add("parses_on_a_parser_object_with_a_past", 1)
			} else {
				r.P, after = &r.Ps[0], &r.Ps[1]
			}
		}
		if r.Err != "" || r.P == nil {
			c.Violation(&Witness{Kind: "parse", Grammar: ref.job.G, Flags: ref.job.Flags, Toks: ref.job.Names(ref.toks), FailAt: ref.fail, Note: "driver error: " + r.Err})
			continue
		}
		why, nontrivial, expected := judge(c, ref, r.P)
		if why == "" && after != nil {
			c.Add("parses_repeated_on_the_same_parser_after_an_action_error", 1)
			if w2, _, e2 := judge(c, &parseRef{ref.job, ref.toks, -1}, after); w2 != "" {
				why, expected = "on a parser whose previous Parse ended with an action error: "+w2, e2
				r.P = after
			}
		}
		if nontrivial {
			c.Nontrivial(ref.job.Name + "/" + strings.Join(ref.job.Names(ref.toks), " ") + fmt.Sprint("/", ref.fail))
		}
		if i%1499 == 0 {
			c.Sample(map[string]interface{}{"grammar": ref.job.G.Render(nil), "flags": ref.job.Flags, "tokens": ref.job.Names(ref.toks), "fail_at": ref.fail, "observed": r.P, "expected": expected})
		}
		if why != "" {
			c.Violation(&Witness{Kind: "parse", Grammar: ref.job.G, Flags: ref.job.Flags, Toks: ref.job.Names(ref.toks), FailAt: ref.fail,
				Expected: expected, Observed: r.P, Note: why})
		}
	}
	c.Set("grammars_parsed", len(used))
	return nil
}

func flagsZipAlternate(i int) []string {
	if i%2 == 1 {
		return []string{"-zip"}
	}
	return nil
}

// ---------------- C02 ----------------

func runC02(c *Ctx) error {
	nG := c.Pick(30, 400)
	want := c.Pick(300, 1500)
	exLen := c.Pick(4, 6)
	c.Rule = "random and template grammars without error alternatives that gocc generates without announcing conflicts; inputs = all short strings over the terminals, random sentences, prefix+terminal probes and mutants, fed by token name; verdict compared with Earley membership; non-trivial = distinct (grammar, token sequence) with at least one token"
	c.Assumptions = []string{"M-EARLEY is a correct recogniser (cross-checked against M-LR1 on every conflict-free grammar of the run)", "token sequences are delivered through the Scanner interface by name (TokMap.Type)"}
	jobs := genSynJobs(c.Rng, nG, "g", synFilter{actionMode: 0, flags: flagsZipAlternate,
		family: func(i int) string { return []string{"nulllist", "", "lr1notlalr", "deadnt", "lr2", "optafter", "firstchain", "", "nullable", "nulllist", "", "manyterms", "", "longkeyed", "", "long", "", "lasubset", "optafter", ""}[i%20] }})
	jobs = append(jobs, corpusSynJobs(c, c.Rng, "k", synFilter{actionMode: 0, flags: flagsZipAlternate})...)
	inRng := rand.New(rand.NewSource(c.Seed*31 + 2))
	var refs []*parseRef
	cov := newLRCoverage()
	for _, j := range jobs {
		pool := model.InputPool(inRng, j.CFG, want, exLen)
		// a few long inputs: parse stacks deeper than the parser's initial capacity
		for _, ls := range append(model.LongSentences(inRng, j.CFG, 3, 120), model.DeepSentences(inRng, j.LR, 2, 110)...) {
			pool = append(pool, ls)
			if len(ls) > 2 {
				cut := append([]int(nil), ls[:len(ls)-1-inRng.Intn(len(ls)/2)]...)
				pool = append(pool, cut)
			}
		}
		if err := j.selfCheck(pool); err != nil {
			return err
		}
		for _, in := range pool {
			refs = append(refs, &parseRef{j, in, -1})
			if j.Class == model.ClassClean {
				cov.add(j, j.LR.Parse(in, model.ParseOpts{FailAt: -1}).Touched)
			}
		}
	}
	err := runParseBatch(c, jobs, "c02drv", refs, judgeC02, domainNoConflictLine)
	cov.report(c)
	return err
}

func domainNoConflictLine(j *SynJob) string {
	if conflictLine(j.Res.Stdout) {
		return "gocc announced conflicts (outside this property's domain)"
	}
	return ""
}

func judgeC02(c *Ctx, ref *parseRef, p *DPResult) (string, bool, interface{}) {
	{
		acc := ref.job.Earley.Accepts(ref.toks)
		if acc {
			c.Add("sentences_among_inputs", 1)
		}
		exp := map[string]interface{}{"sentence": acc}
		switch p.End {
		case "ret":
			if !acc {
				return "Parse returned a nil error for a token sequence that is not a sentence", true, exp
			}
		case "err":
			if acc {
				return "Parse returned an error for a sentence of the grammar", true, exp
			}
		case "abort":
			return "Parse did not terminate within its event budget: " + p.Msg, true, exp
		default:
			return "Parse panicked: " + p.Msg, true, exp
		}
		return "", len(ref.toks) > 0, exp
	}
}

// ---------------- C03 ----------------

func runC03(c *Ctx) error {
	nG := c.Pick(25, 300)
	nS := c.Pick(150, 600)
	c.Rule = "conflict-free grammars with random recorder / default / empty actions ($i, $Ti, multi-digit indices, $Context); inputs = sentences, and for each a few placements of a failing action; the recorded event log (scans, action calls with argument identities, result) must equal the post-order evaluation by M-LR1; non-trivial = accepted sentence whose log contains at least one action call; distinct by (grammar, tokens, failing occurrence)"
	c.Assumptions = []string{"M-LR1's reduction order equals the post-order of the unique parse tree of an unambiguous grammar", "token identity is observed as pointer identity of the *token.Token handed out by the harness scanner"}
	jobs := genSynJobs(c.Rng, nG*2/3, "g", synFilter{class: func(k model.LRClass) bool { return k == model.ClassClean }, nonEmpty: true, actionMode: 0, flags: flagsZipAlternate,
		family: func(i int) string { return []string{"long", "optafter", "nullable", "", "long", "optafter", "list", ""}[i%8] },
		actionModeOf: func(i int) int {
			if i%4 == 1 {
				return 3 // every value visible, empty alternatives action-less
			}
			return 0
		}})
	// conflict-free grammars that also carry error alternatives: a failing action must stop Parse there too
	jobs = append(jobs, genSynJobs(c.Rng, nG-len(jobs), "e", synFilter{class: func(k model.LRClass) bool { return k == model.ClassClean }, withErrors: true, nonEmpty: true, actionMode: 1, flags: flagsZipAlternate})...)
	jobs = append(jobs, corpusSynJobs(c, c.Rng, "k", synFilter{class: func(k model.LRClass) bool { return k == model.ClassClean }, nonEmpty: true, actionMode: 0, flags: flagsZipAlternate})...)
	jobs = append(jobs, corpusSynJobs(c, c.Rng, "ke", synFilter{class: func(k model.LRClass) bool { return k == model.ClassClean }, withErrors: true, nonEmpty: true, actionMode: 1, flags: flagsZipAlternate})...)
	inRng := rand.New(rand.NewSource(c.Seed*37 + 3))
	var refs []*parseRef
	cov := newLRCoverage()
	for _, j := range jobs {
		sg := model.NewSentenceGen(j.CFG)
		seen := map[string]bool{}
		for i := 0; i < nS*3 && len(seen) < nS; i++ {
			s := sg.Random(inRng, 1+inRng.Intn(18))
			k := fmt.Sprint(s)
			if seen[k] {
				continue
			}
			seen[k] = true
			refs = append(refs, &parseRef{j, s, -1})
			m := j.LR.Parse(s, model.ParseOpts{FailAt: -1})
			cov.add(j, m.Touched)
			calls := len(reductionsOf(m.Log))
			if calls > 0 && i%2 == 0 {
				refs = append(refs, &parseRef{j, s, inRng.Intn(calls)})
				if calls > 2 && j.G.HasErrorAlts() {
					refs = append(refs, &parseRef{j, s, inRng.Intn(calls - 1)})
				}
			}
		}
	}
	for _, j := range jobs {
		for _, ls := range append(model.LongSentences(inRng, j.CFG, 2, 120), model.DeepSentences(inRng, j.LR, 2, 110)...) {
			refs = append(refs, &parseRef{j, ls, -1})
		}
	}
	err := runParseBatch(c, jobs, "c03drv", refs, judgeC03, nil)
	cov.report(c)
	return err
}

func judgeC03(c *Ctx, ref *parseRef, p *DPResult) (string, bool, interface{}) {
	{
		m := ref.job.LR.Parse(ref.toks, model.ParseOpts{FailAt: ref.fail})
		exp := map[string]interface{}{"log": m.Log, "accepted": m.Accepted, "custom_error": m.Custom}
		if m.StepsExceeded {
			c.Inconclusive("reference exceeded its step bound")
			return "", false, exp
		}
		nontrivial := len(reductionsOf(m.Log)) > 0
		if p.End == "panic" || p.End == "abort" {
			return "Parse " + p.End + ": " + p.Msg, nontrivial, exp
		}
		if ref.fail < 0 {
			if p.End != "ret" {
				return "Parse failed on a sentence: " + p.Msg, nontrivial, exp
			}
			if fullLog(p) != m.Log {
				return "action calls differ from the post-order evaluation of the parse tree", nontrivial, exp
			}
			return "", nontrivial, exp
		}
		// a failing action occurrence
		if !m.Custom {
			return "", false, exp // the chosen occurrence does not exist in this parse
		}
		if p.End != "err" {
			return "an action returned an error but Parse did not return an error", true, exp
		}
		if p.Custom != 1 {
			return "Parse's error does not carry the error returned by the action", true, exp
		}
		if p.Log != m.Log {
			return "action calls before/after the failing action differ: further actions ran or calls are missing", true, exp
		}
		return "", true, exp
	}
}

// ---------------- C05 ----------------

func runC05(c *Ctx) error {
	nG := c.Pick(45, 300)
	want := c.Pick(600, 3000)
	c.Rule = "grammars with shift/reduce and/or reduce/reduce conflicts (no accept conflicts) generated with -a; every reduction is recorded; verdict and reduction sequence compared with M-LR1 resolved by 'shift first, else earliest production'; non-trivial = the reference run consulted at least one entry that had competing actions; distinct by (grammar, tokens)"
	c.Assumptions = []string{"M-LR1 builds the canonical LR(1) automaton; state numbering is not compared"}
	jobs := genSynJobs(c.Rng, nG, "g", synFilter{class: func(k model.LRClass) bool { return k == model.ClassConflict }, ambiguous: true, actionMode: 1,
		family: func(i int) string {
			if i%6 == 2 {
				return "splitrr" // the order of declaration across split definitions decides
			}
			if i%6 == 4 {
				return "rrwide" // competing productions numbered below and above ten
			}
			return ""
		},
		flags: func(i int) []string {
			if i%2 == 1 {
				return []string{"-a", "-zip"}
			}
			return []string{"-a"}
		}})
	jobs = append(jobs, corpusSynJobs(c, c.Rng, "k", synFilter{class: func(k model.LRClass) bool { return k == model.ClassConflict }, actionMode: 1, flags: func(i int) []string { return []string{"-a"} }})...)
	inRng := rand.New(rand.NewSource(c.Seed*41 + 5))
	var refs []*parseRef
	conflictTotal := 0
	multi := 0
	for _, j := range jobs {
		conflictTotal += len(j.Confl)
		for _, ce := range j.Confl {
			if len(ce.Acts) >= 3 {
				multi++
			}
		}
		for _, in := range model.InputPool(inRng, j.CFG, want, 4) {
			refs = append(refs, &parseRef{j, in, -1})
		}
	}
	err := runParseBatch(c, jobs, "c05drv", refs, judgeC05, nil)
	c.Set("conflict_entries_total", conflictTotal)
	c.Set("conflict_entries_with_3_or_more_competitors", multi)
	return err
}

func judgeC05(c *Ctx, ref *parseRef, p *DPResult) (string, bool, interface{}) {
	{
		m := ref.job.LR.Parse(ref.toks, model.ParseOpts{FailAt: -1})
		exp := map[string]interface{}{"accepted": m.Accepted, "reductions": reductionsOf(m.Log)}
		if m.Diverges {
			// the resolved machine itself runs for ever on this input (a reduction cycle that the
			// resolution rule mandates): the parser must run along with it, not return
			c.Add("inputs_on_which_the_resolved_machine_diverges", 1)
			if p.End != "abort" {
				return "Parse returned, but the resolved LR(1) machine never terminates on this input: the parser does not follow the resolution", true, exp
			}
			a, b := reductionsOf(m.Log), reductionsOf(p.Log)
			if len(a) > len(b) {
				a = a[:len(b)]
			} else {
				b = b[:len(a)]
			}
			if !sameList(a, b) {
				return "reduction sequence differs from the (diverging) resolved LR(1) machine", true, exp
			}
			return "", true, exp
		}
		if m.StepsExceeded {
			c.Inconclusive("reference exceeded its step bound on " + ref.job.Name)
			return "", false, exp
		}
		nontrivial := false
		for k := range m.Touched {
			c.Mark("model_lr1_entries_touched", fmt.Sprint(ref.job.Name, k))
			if len(ref.job.LR.Acts[k[0]][k[1]]) > 1 {
				nontrivial = true
				c.Mark("conflict_entries_exercised", fmt.Sprint(ref.job.Name, k))
			}
		}
		switch p.End {
		case "panic", "abort":
			return "Parse " + p.End + ": " + p.Msg, nontrivial, exp
		case "ret":
			if !m.Accepted {
				return "parser accepted, the resolved LR(1) machine rejects", nontrivial, exp
			}
		case "err":
			if m.Accepted {
				return "parser rejected, the resolved LR(1) machine accepts", nontrivial, exp
			}
		}
		if strings.Join(reductionsOf(p.Log), " ") != strings.Join(reductionsOf(m.Log), " ") {
			return "reduction sequence differs from the resolved LR(1) machine", nontrivial, exp
		}
		return "", nontrivial, exp
	}
}

// ---------------- C06 ----------------

func runC06(c *Ctx) error {
	nG := c.Pick(30, 400)
	want := c.Pick(600, 3000)
	c.Rule = "conflict-free grammars without error alternatives whose nonterminals are all productive; inputs = non-sentences (prefix+terminal probes, mutants, truncated sentences, short strings); the error token identity/type/literal/position, the expected set and the absence of action calls after the offending token was scanned are judged against M-EARLEY; non-trivial = a failing parse with at least one token consumed before the offending one; distinct by (grammar, tokens)"
	c.Assumptions = []string{"for a grammar whose nonterminals are all productive every non-empty Earley set is a viable prefix", "expected-token lists are compared as sets of names"}
	jobs := genSynJobs(c.Rng, nG, "g", synFilter{class: func(k model.LRClass) bool { return k == model.ClassClean }, productive: true, nonEmpty: true, actionMode: 0, flags: flagsZipAlternate,
		noStrLits: func(i int) bool { return i%3 == 0 }, family: func(i int) string {
			return []string{"wide", "optafter", "lr1notlalr", "", "nulllist", "lasubset", "longkeyed", "nulllist", "lafirst", "lasubset", "long", "nullable"}[i%12]
		}})
	jobs = append(jobs, corpusSynJobs(c, c.Rng, "k", synFilter{class: func(k model.LRClass) bool { return k == model.ClassClean }, productive: true, nonEmpty: true, actionMode: 0, flags: flagsZipAlternate})...)
	inRng := rand.New(rand.NewSource(c.Seed*43 + 7))
	var refs []*parseRef
	for _, j := range jobs {
		for _, in := range model.InputPool(inRng, j.CFG, want, 4) {
			if !j.Earley.Accepts(in) {
				refs = append(refs, &parseRef{j, in, -1})
			}
		}
	}
	return runParseBatch(c, jobs, "c06drv", refs, judgeC06, domainNoConflictLine)
}

func judgeC06(c *Ctx, ref *parseRef, p *DPResult) (string, bool, interface{}) {
	{
		er := ref.job.Earley.Run(ref.toks)
		var expNames []string
		for t := range er.Expected {
			expNames = append(expNames, ref.job.CFG.Terms[t])
		}
		exp := map[string]interface{}{"first_offending_index": er.FirstBad, "expected": sortedCopy(expNames)}
		if er.Accepted {
			return "", false, exp
		}
		if p.End != "err" {
			return "Parse did not return an error on a non-sentence (" + p.End + " " + p.Msg + ")", true, exp
		}
		i := er.FirstBad
		if i == 0 {
			c.Add("errors_at_first_token", 1)
		}
		if i == len(ref.toks) {
			c.Add("errors_at_end_of_input", 1)
		}
		if p.ETok != fmt.Sprintf("t%d", i) {
			return fmt.Sprintf("error token is %s, the first offending token is t%d", p.ETok, i), true, exp
		}
		wantType := model.NameEOF
		if i < len(ref.toks) {
			wantType = ref.job.CFG.Terms[ref.toks[i]]
		}
		if p.EType != wantType {
			return fmt.Sprintf("error token type %s, offending token has type %s", p.EType, wantType), true, exp
		}
		if i < len(ref.toks) && string(p.ELit) != wantType {
			return fmt.Sprintf("error token literal %q, offending token literal %q", p.ELit, wantType), true, exp
		}
		if p.EPos[0] != i {
			return fmt.Sprintf("error token position %v, offending token is number %d", p.EPos, i), true, exp
		}
		// no action after the offending token was handed to the parser
		fields := strings.Fields(p.Log)
		seenScan := false
		for _, f := range fields {
			if f == fmt.Sprintf("s%d", i) {
				seenScan = true
				continue
			}
			if seenScan && strings.HasPrefix(f, "r") {
				return "an action expression ran with the offending token as look-ahead: " + f, true, exp
			}
			if seenScan && strings.HasPrefix(f, "s") {
				return "the parser scanned past the offending token: " + f, true, exp
			}
		}
		if !seenScan {
			return "the offending token was never scanned", true, exp
		}
		if hasDup(p.Exp) {
			return "expected-token list contains duplicates", true, exp
		}
		if !sameSet(p.Exp, expNames) {
			return fmt.Sprintf("expected-token list %v differs from the exact follow set %v", sortedCopy(p.Exp), sortedCopy(expNames)), true, exp
		}
		if p.Custom != 0 {
			return "syntax error carries a custom error", true, exp
		}
		if p.Text != "" && !sameList(p.Exp, p.ExpAfter) {
			return fmt.Sprintf("printing the error (Error(), String()) changed its expected-token list from %v to %v", p.Exp, p.ExpAfter), true, exp
		}
		if p.Text != "" {
			half := p.Text[:len(p.Text)/2]
			_ = half
			lines := strings.Split(p.Text, "\n")
			if len(lines) > 2 && lines[0] != "" {
				// Error() was called twice: both renderings must be identical
				second := ""
				for k := 1; k < len(lines); k++ {
					if lines[k] == lines[0] {
						second = lines[k]
					}
				}
				if second == "" {
					return "calling Error() twice on the same error gives two different texts: " + trunc(p.Text, 300), true, exp
				}
			}
		}
		return "", i > 0, exp
	}
}

// ---------------- C07 ----------------

func runC07(c *Ctx) error {
	nG := c.Pick(25, 300)
	want := c.Pick(600, 3000)
	c.Rule = "grammars with error-first alternatives (conflict-free, and conflicting ones generated with -a); inputs valid, singly and multiply erroneous, errors at end of input; the full event log (scans, action calls with error attributes: offending token identity and discarded attributes, result or error) must equal M-LR1 with the recovery rule of the statement; token conservation checked on the log; non-trivial = reference run performed at least one recovery attempt; distinct by (grammar, tokens)"
	c.Assumptions = []string{"recovery rule read literally from C07: topmost state that can shift 'error'", "ExpectedTokens of recovered errors is recorded, not judged"}
	clean := genSynJobs(c.Rng, nG*2/3, "g", synFilter{class: func(k model.LRClass) bool { return k == model.ClassClean }, withErrors: true, actionMode: 1,
		flags: func(i int) []string {
			// recovery must work whatever presentation flags the parser was generated with
			return [][]string{nil, {"-zip"}, nil, {"-debug_parser"}, {"-zip"}, {"-v"}, nil, {"-zip", "-debug_parser"}}[i%8]
		},
		family: func(i int) string { return []string{"errorder", "", "stmts", "errdeep", "list", "errorder", "", "errdeep"}[i%8] }})
	confl := genSynJobs(c.Rng, nG-len(clean), "h", synFilter{class: func(k model.LRClass) bool { return k == model.ClassConflict }, withErrors: true, ambiguous: true, actionMode: 1,
		flags: func(i int) []string { return []string{"-a"} }})
	jobs := append(clean, confl...)
	jobs = append(jobs, corpusSynJobs(c, c.Rng, "k", synFilter{class: func(k model.LRClass) bool { return k != model.ClassAcceptReduce }, withErrors: true, actionMode: 1, flags: func(i int) []string { return []string{"-a"} }})...)
	inRng := rand.New(rand.NewSource(c.Seed*47 + 11))
	var refs []*parseRef
	for _, j := range jobs {
		for _, in := range model.InputPool(inRng, j.CFG, want, 4) {
			refs = append(refs, &parseRef{j, in, -1})
			if inRng.Intn(8) == 0 && len(in) > 1 {
				// an action fails somewhere in the middle of a (possibly erroneous) input
				refs = append(refs, &parseRef{j, in, inRng.Intn(len(in))})
			}
		}
	}
	return runParseBatch(c, jobs, "c07drv", refs, judgeC07, nil)
}

var strippedCache = map[*SynJob]*SynJob{}

// strippedOf: the grammar without its error alternatives (clause 2 of C07), only when both are conflict-free.
func strippedOf(j *SynJob) *SynJob {
	if s, ok := strippedCache[j]; ok {
		return s
	}
	var res *SynJob
	if j.Class == model.ClassClean {
		if g2 := stripErrorAlts(j.G); g2 != nil {
			if s, err := NewSynJob(j.Name+"s", g2, nil); err == nil && s.Class == model.ClassClean {
				res = s
			}
		}
	}
	strippedCache[j] = res
	return res
}

func judgeC07(c *Ctx, ref *parseRef, p *DPResult) (string, bool, interface{}) {
	{
		m := ref.job.LR.Parse(ref.toks, model.ParseOpts{FailAt: ref.fail})
		if ref.fail >= 0 {
			exp := map[string]interface{}{"log": m.Log, "custom_error": m.Custom}
			if m.StepsExceeded || !m.Custom {
				return "", false, exp // the chosen occurrence does not exist in this parse: covered by the fail=-1 twin
			}
			c.Add("inputs_with_failing_action", 1)
			switch {
			case p.End == "panic" || p.End == "abort":
				return "Parse " + p.End + ": " + p.Msg, true, exp
			case p.End != "err" || p.Custom != 1:
				return "an action returned an error but Parse did not stop and return it", true, exp
			case p.Log != m.Log:
				return "event log up to the failing action differs from the reference (further actions ran, or recovery was attempted on an action error)", true, exp
			}
			return "", true, exp
		}
		exp := map[string]interface{}{"log": m.Log, "accepted": m.Accepted, "error_token": m.ErrTok, "recoveries": m.Recoveries}
		if p.End == "panic" {
			return "Parse panicked: " + p.Msg, true, exp
		}
		if m.Diverges {
			// only with -a: the resolution rule of C05 itself yields a reduction cycle (cyclic or
			// hidden-left-recursive grammar); C07 cannot ask the parser to return here. C05 judges it.
			c.Add("inputs_outside_domain_resolved_machine_diverges", 1)
			return "", false, exp
		}
		if p.End == "abort" {
			if m.StepsExceeded {
				c.Inconclusive("reference and parser both exceeded their budgets on " + ref.job.Name)
				return "", false, exp
			}
			return "Parse did not return within its event budget: " + p.Msg, true, exp
		}
		if m.StepsExceeded {
			c.Inconclusive("reference exceeded its step bound on " + ref.job.Name)
			return "", false, exp
		}
		for k := range m.Touched {
			c.Mark("model_lr1_entries_touched", fmt.Sprint(ref.job.Name, k))
		}
		attempted := m.Recoveries > 0 || !m.Accepted
		if m.Recoveries > 0 {
			c.Add("inputs_recovered", 1)
		} else if !m.Accepted {
			c.Add("inputs_error_returned", 1)
		}
		// clause (2): inputs that are sentences of the grammar without its error alternatives
		if s := strippedOf(ref.job); s != nil {
			if ids, ok := s.IDs(ref.job.Names(ref.toks)); ok && s.Earley.Accepts(ids) {
				c.Add("inputs_valid_for_stripped_grammar", 1)
				if p.End != "ret" {
					return "an input without syntax errors was not accepted", true, exp
				}
				if strings.Contains(p.Log, "E(") {
					return "an error attribute was produced on an input without syntax errors", true, exp
				}
			}
		}
		// token conservation on the observed log
		if why := tokenConservation(p.Log); why != "" {
			return why, attempted, exp
		}
		if m.Accepted {
			if p.End != "ret" {
				return "parser returned an error, the reference recovers and accepts", attempted, exp
			}
			if fullLog(p) != m.Log {
				return "event log differs from the reference (reductions, error attribute, discarded attributes or resume point)", attempted, exp
			}
			return "", attempted, exp
		}
		if p.End != "err" {
			return "parser accepted, the reference returns the error", attempted, exp
		}
		if p.Log != m.Log {
			return "event log differs from the reference before the error was returned", attempted, exp
		}
		if p.ETok != fmt.Sprintf("t%d", m.ErrTok) {
			return fmt.Sprintf("returned error names %s, reference names t%d", p.ETok, m.ErrTok), attempted, exp
		}
		return "", attempted, exp
	}
}

func sameList(a, b []string) bool {
	if len(a) != len(b) {
		return false
	}
	for i := range a {
		if a[i] != b[i] {
			return false
		}
	}
	return true
}

func replayJudge(id string) judgeFn {
	switch id {
	case "C02":
		return judgeC02
	case "C03":
		return judgeC03
	case "C05":
		return judgeC05
	case "C06":
		return judgeC06
	case "C07":
		return judgeC07
	}
	return judgeC02
}

// tokenConservation: every token identity appears at most once among action arguments and
// error-symbol lists, and in input order.
func tokenConservation(log string) string {
	seen := map[string]bool{}
	for _, f := range strings.Fields(log) {
		if !strings.HasPrefix(f, "r") || strings.HasPrefix(f, "ret:") {
			continue
		}
		// collect tN occurrences that are direct arguments or inside E(...;[...]) lists, but not the
		// "offending token" slot of an error attribute (E(tN;...)), which names a token that stays in the input
		s := f
		for i := 0; i < len(s); i++ {
			if s[i] != 't' || i+1 >= len(s) || s[i+1] < '0' || s[i+1] > '9' {
				continue
			}
			if i >= 2 && s[i-2:i] == "E(" {
				continue
			}
			k := i + 1
			for k < len(s) && s[k] >= '0' && s[k] <= '9' {
				k++
			}
			id := s[i:k]
			if seen[id] {
				return "token " + id + " reached actions more than once"
			}
			seen[id] = true
			i = k - 1
		}
	}
	return ""
}

func stripErrorAlts(g *gram.Grammar) *gram.Grammar {
	ng := g.Clone()
	for _, d := range ng.NTs {
		var alts []gram.SAlt
		for _, a := range d.Alts {
			if !a.Err {
				alts = append(alts, a)
			}
		}
		if len(alts) == 0 {
			return nil
		}
		d.Alts = alts
	}
	return ng
}

// parseReplay re-runs one (grammar, flags, tokens, failAt) case under the current property.
func parseReplay(c *Ctx, w *Witness) error {
	if w.Grammar == nil {
		return fmt.Errorf("witness without grammar IR")
	}
	g := w.Grammar.Clone()
	j, err := NewSynJob("g_replay_"+w.Key()[:8], g, w.Flags)
	if err != nil {
		return err
	}
	ids, ok := j.IDs(w.Toks)
	if !ok {
		return fmt.Errorf("witness uses a terminal the grammar does not have")
	}
	ref := &parseRef{j, ids, w.FailAt}
	return runParseBatch(c, []*SynJob{j}, "replaydrv", []*parseRef{ref}, replayJudge(c.ID), nil)
}
