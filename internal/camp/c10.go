package camp

import (
	"fmt"
	"math/rand"
	"strings"

	"github.com/goccmack/gocc/verifx/internal/gram"
	"github.com/goccmack/gocc/verifx/internal/model"
)

func init() {
	register(&Campaign{ID: "C10", NeedsWorkspace: true, Run: runC10, Replay: replayC10})
}

type c10Job struct {
	*GenJob
	mode  string // lexer-only | no-lexer | combined
	terms []string
	cfg   *model.CFG
	lr    *model.LR1
	lex   *model.LexModel
}

func newC10Job(name, mode string, g *gram.Grammar, extra []string) *c10Job {
	j := &c10Job{GenJob: &GenJob{Name: name, G: g}, mode: mode}
	switch mode {
	case "no-lexer":
		j.Flags = []string{"-a", "-no_lexer"}
	default:
		j.Flags = []string{"-a"}
	}
	for _, f := range extra {
		if !(mode == "no-lexer" && f == "-debug_lexer") && !hasFlag(j.Flags, f) {
			j.Flags = append(j.Flags, f)
		}
	}
	j.terms = g.AllTerminalNames()
	if len(g.NTs) > 0 {
		if cfg, err := model.NewCFG(g); err == nil {
			j.cfg = cfg
			if lr, err := model.NewLR1(cfg); err == nil {
				j.lr = lr
			}
		}
	}
	if mode != "no-lexer" {
		if m, err := model.NewLexModel(g); err == nil {
			j.lex = m
		}
	}
	return j
}

func runC10(c *Ctx) error {
	n := c.Pick(40, 500)
	c.Rule = "grammars in three modes (lexer-only, -no_lexer, combined) with hostile terminal spellings (string literals with quotes, back-quotes, backslashes, %, $, newlines, non-ASCII; unicode token names; tokens declared but unused); from the compiled packages: Id(i) for all i, Type(name) for every terminal, production name and random name, Type(Id(i)); the type the generated lexer returns for a sampled lexeme of every terminal; the parser's log for sentences fed by name versus through the lexer; oracle: INVALID=0, end-of-input=1, the other terminals distinct and consecutive, lookups mutually inverse, unknown names -> INVALID, lexer and parser use the same numbers; one evaluation = one lookup table check, lexeme check or sentence pair; non-trivial = grammar with at least 3 terminals / lexeme or sentence actually compared; distinct by (grammar, item)"
	c.Assumptions = []string{"the pseudo symbols 'empty' and 'error' may appear in the table as extra names; reserved names (INVALID, end-of-input marker, error, empty) are never used as terminal spellings (finding F9)"}
	var jobs []*c10Job
	for i := 0; i < n; i++ {
		name := fmt.Sprintf("g%04d", i)
		// the numbering must not depend on the presentation flags either
		var extra []string
		if c.Rng.Intn(2) == 0 {
			for _, f := range []string{"-v", "-zip", "-debug_parser", "-debug_lexer"} {
				if c.Rng.Intn(3) == 0 {
					extra = append(extra, f)
				}
			}
		}
		if i%6 >= 4 && !hasFlag(extra, "-zip") {
			extra = append(extra, "-zip") // the compressed tables are a second writer of column numbers
		}
		switch i % 3 {
		case 0:
			o := gram.DefaultLexGenOpts()
			o.StrLits = 0
			jobs = append(jobs, newC10Job(name, "lexer-only", gram.GenLexGrammar(c.Rng, o), extra))
		case 1:
			g := hostileGrammar(c.Rng, false)
			if c.Rng.Intn(2) == 0 {
				g.Lex = nil // tokens not declared at all: numbered from their use in the syntax part
			}
			jobs = append(jobs, newC10Job(name, "no-lexer", g, extra))
		default:
			g := hostileGrammar(c.Rng, false)
			if c.Rng.Intn(2) == 0 {
				// the pseudo terminal 'error' has a number and a table column too: an error alternative
				// followed by a nonterminal that is defined before the nonterminal using it
				item := g.NTs[1]
				sepLit := item.Alts[0].Body[0]
				g.NTs[0].Alts = append(g.NTs[0].Alts, gram.SAlt{Err: true, Body: []gram.Sym{{Kind: gram.SNT, Name: "Sep_"}}})
				g.NTs = []*gram.NTDef{g.NTs[0], {Head: "Sep_", Alts: []gram.SAlt{{Body: []gram.Sym{sepLit}}}}, item}
			}
			// extra declared-but-unused tokens are numbered after the used ones
			for k := 0; k < c.Rng.Intn(3); k++ {
				g.Lex = append(g.Lex, gram.LexDef{Kind: gram.DTok, Name: fmt.Sprintf("zz_unused%d", k), Pat: gram.StrPattern(fmt.Sprintf("#%d", k))})
			}
			jobs = append(jobs, newC10Job(name, "combined", g, extra))
		}
	}
	return runC10Jobs(c, jobs)
}

func runC10Jobs(c *Ctx, jobs []*c10Job) error {
	gj := make([]*GenJob, len(jobs))
	for i, j := range jobs {
		gj[i] = j.GenJob
		if len(j.G.NTs) > 0 {
			gram.AssignActions(c.Rng, j.G, 1)
			gram.SetHarnessHeader(j.G, "scratch.x/w", j.Name)
			// the reference models read the actions from the grammar: rebuild them now
			if cfg, err := model.NewCFG(j.G); err == nil {
				j.cfg = cfg
				if lr, err := model.NewLR1(cfg); err == nil {
					j.lr = lr
				}
			}
		}
	}
	c.GenerateAll(gj, true)
	bin, err := c.BuildDriver(gj, "c10drv", false)
	if err != nil {
		return err
	}
	inRng := rand.New(rand.NewSource(c.Seed*61 + 23))
	type ref struct {
		j    *c10Job
		kind string
		name string   // terminal for "lexeme"
		toks []string // for "pair"
		a, b int      // case indices
		sj   *SynJob
		ids  []int
	}
	var cases []*DCase
	var refs []ref
	for _, j := range jobs {
		if j.Dropped != "" {
			if j.Res.Exit == 0 {
				c.Inconclusive(j.Name + ": " + j.Dropped)
			} else if hasReservedTokenName(j.G) {
				// INVALID / the end-of-input marker as a grammar symbol: refusing the grammar is the correct outcome
				c.Add("grammars_with_reserved_spelling_refused", 1)
			} else {
				c.Violation(&Witness{Kind: "c10", Grammar: j.G, Flags: j.Flags, Strs: []string{j.mode}, Note: fmt.Sprintf("gocc refuses a well-formed grammar (exit %d): %s", j.Res.Exit, trunc(j.Res.Stdout+j.Res.Stderr, 300))})
			}
			continue
		}
		probe := append([]string{}, j.terms...)
		for _, h := range j.G.Heads() {
			probe = append(probe, h)
		}
		probe = append(probe, "zz_no_such_token", "", "Unknown", "unknown")
		refs = append(refs, ref{j: j, kind: "table", a: len(cases)})
		cases = append(cases, &DCase{G: j.Name, Op: "tokmap", Names: probe})
		if j.lex != nil && j.Info.HasLexer {
			defs := j.G.RegDefs()
			core, _ := j.G.LexAlphabet()
			for _, d := range j.G.Lex {
				if d.Kind != gram.DTok {
					continue
				}
				if lx, ok := gram.SampleLexeme(inRng, d.Pat, defs, core, 0); ok && len(lx) > 0 {
					refs = append(refs, ref{j: j, kind: "lexeme", name: d.Name, a: len(cases)})
					cases = append(cases, &DCase{G: j.Name, Op: "lex", Src: []byte(string(lx))})
				}
			}
			for _, s := range j.G.SyntaxTerminals() {
				if s.Kind == gram.SStr {
					refs = append(refs, ref{j: j, kind: "lexeme", name: s.Name, a: len(cases)})
					cases = append(cases, &DCase{G: j.Name, Op: "lex", Src: []byte(s.Name)})
				}
			}
		}
		if j.lr != nil && j.Info.HasParser && j.G.HasErrorAlts() {
			// erroneous inputs by name: the recovery must go through the column TokMap gives to 'error'
			sj := &SynJob{GenJob: j.GenJob, CFG: j.cfg, LR: j.lr, Earley: model.NewEarley(j.cfg)}
			sj.Class, sj.Confl = j.lr.Classify()
			for _, in := range model.InputPool(inRng, j.cfg, 40, 2) {
				refs = append(refs, ref{j: j, kind: "recover", toks: sj.Names(in), a: len(cases), sj: sj, ids: in})
				cases = append(cases, &DCase{G: j.Name, Op: "parse", Feed: &DFeed{Toks: sj.Names(in), Fail: -1}})
			}
		}
		if j.mode == "combined" && j.lr != nil && j.lex != nil && j.Info.HasParser {
			sg := model.NewSentenceGen(j.cfg)
			for k := 0; k < 12 && sg.HasSentence(); k++ {
				names := make([]string, 0)
				for _, t := range sg.Random(inRng, 1+inRng.Intn(8)) {
					names = append(names, j.cfg.Terms[t])
				}
				src := c10Source(j, names, inRng)
				if src == nil {
					continue
				}
				ids := make([]int, len(names))
				for q, nm := range names {
					ids[q], _ = j.cfg.TermID(nm)
				}
				refs = append(refs, ref{j: j, kind: "pair", toks: names, a: len(cases), b: len(cases) + 1, ids: ids})
				cases = append(cases, &DCase{G: j.Name, Op: "parse", Feed: &DFeed{Toks: names, Fail: -1}},
					&DCase{G: j.Name, Op: "parse", Feed: &DFeed{Src: src, UseSrc: true, Fail: -1}})
			}
		}
	}
	if len(cases) == 0 {
		if n, _ := c.extra["grammars_with_reserved_spelling_refused"].(int); n > 0 {
			return nil
		}
		return fmt.Errorf("no case could be built")
	}
	results, err := c.RunCases(bin, cases, 1, nil)
	if err != nil {
		return err
	}
	typeOf := map[string]map[string]int{} // job -> terminal -> number
	for ri, rf := range refs {
		j := rf.j
		w := &Witness{Kind: "c10", Grammar: j.G, Flags: j.Flags, Strs: []string{j.mode}}
		c.Eval(1)
		switch rf.kind {
		case "table":
			r := results[rf.a]
			if len(j.terms) >= 3 {
				c.Nontrivial(j.Name + "/table")
			}
			why := checkTokMap(j, r, typeOf)
			if ri%37 == 0 {
				c.Sample(map[string]interface{}{"grammar": j.G.Render(nil), "mode": j.mode, "ids": r.Ids, "probed_names": cases[rf.a].Names, "types": r.Types})
			}
			if why != "" {
				w.Observed = map[string]interface{}{"ids": r.Ids, "types_of_probed_names": r.Types, "probed_names": cases[rf.a].Names}
				w.Note = why
				c.Violation(w)
			}
		case "lexeme":
			r := results[rf.a]
			src := cases[rf.a].Src
			exp := j.lex.Lex(src)
			if len(exp.Toks) != 2 || exp.Toks[0].Name != rf.name {
				continue // the sample does not lex as this token alone (overlap with another pattern): not a numbering question
			}
			c.Nontrivial(j.Name + "/lexeme/" + rf.name)
			want, ok := typeOf[j.Name][rf.name]
			if !ok || r.Err != "" || len(r.Toks) == 0 {
				continue
			}
			if r.Toks[0].Tn != want {
				w.Input = src
				w.Note = fmt.Sprintf("the lexer returns type %d for a lexeme of %q, the token package numbers it %d", r.Toks[0].Tn, rf.name, want)
				c.Violation(w)
			}
		case "recover":
			p := results[rf.a].P
			if p == nil {
				continue
			}
			why, nontrivial, exp := judgeC07(c, &parseRef{rf.sj, rf.ids, -1}, p)
			if nontrivial {
				c.Nontrivial(j.Name + "/recover/" + strings.Join(rf.toks, " "))
			}
			if why != "" {
				w.Toks = rf.toks
				w.Expected = exp
				w.Observed = p
				w.Note = "error recovery by token name differs from the reference (is the error column the one TokMap assigns?): " + why
				c.Violation(w)
			}
		case "pair":
			a, b := results[rf.a].P, results[rf.b].P
			if a == nil || b == nil {
				continue
			}
			c.Nontrivial(j.Name + "/pair/" + strings.Join(rf.toks, " "))
			if fullLog(a) != fullLog(b) || a.End != b.End {
				w.Toks = rf.toks
				w.Expected = a
				w.Observed = b
				w.Note = "the same sentence fed by token name and through the generated lexer is parsed differently (lexer and parser disagree on token numbers?)"
				c.Violation(w)
			} else if m := j.lr.Parse(rf.ids, model.ParseOpts{FailAt: -1}); !m.StepsExceeded && (m.Accepted != (a.End == "ret") || m.Accepted && m.Log != fullLog(a)) {
				// both feeds agree with each other but not with the grammar: the parser's table
				// columns are not the numbers of the token package
				w.Toks = rf.toks
				w.Expected = map[string]interface{}{"accepted": m.Accepted, "log": m.Log}
				w.Observed = a
				w.Note = "a sentence of the grammar, fed with the numbers the token package assigns, is not parsed as the grammar says (the parser's columns are not those numbers?)"
				c.Violation(w)
			}
		}
	}
	return nil
}

// c10Source renders a token-name sequence as source text that M-LEX lexes back to exactly that sequence, or nil.
func c10Source(j *c10Job, names []string, r *rand.Rand) []byte {
	defs := j.G.RegDefs()
	core, _ := j.G.LexAlphabet()
	var sb strings.Builder
	for i, n := range names {
		if i > 0 {
			sb.WriteString(" ")
		}
		if d := j.G.LexDefByName(n); d != nil {
			lx, ok := gram.SampleLexeme(r, d.Pat, defs, core, 0)
			if !ok {
				return nil
			}
			sb.WriteString(string(lx))
		} else {
			sb.WriteString(n)
		}
	}
	src := []byte(sb.String())
	got := j.lex.Lex(src)
	if len(got.Toks) != len(names)+1 {
		return nil
	}
	for i, n := range names {
		if got.Toks[i].Name != n {
			return nil
		}
	}
	return src
}

func checkTokMap(j *c10Job, r *DResult, typeOf map[string]map[string]int) string {
	if r.Err != "" {
		return "token map lookup failed: " + r.Err
	}
	ids := r.Ids
	if len(ids) < 2 || ids[0] != "INVALID" {
		return fmt.Sprintf("Id(0) is %q, not INVALID", first(ids))
	}
	if ids[1] != model.NameEOF {
		return fmt.Sprintf("Id(1) is %q, not the end-of-input marker", ids[1])
	}
	n := len(ids)
	if ids[n-1] == "unknown" {
		n--
	}
	seen := map[string]int{}
	for i := 0; i < n; i++ {
		if k, dup := seen[ids[i]]; dup {
			return fmt.Sprintf("numbers %d and %d carry the same name %q", k, i, ids[i])
		}
		seen[ids[i]] = i
		if i < len(r.IdTypes) && r.IdTypes[i] != i {
			return fmt.Sprintf("Type(Id(%d)) = %d (name %q): the lookups are not mutually inverse", i, r.IdTypes[i], ids[i])
		}
	}
	tm := map[string]int{}
	typeOf[j.Name] = tm
	want := map[string]bool{}
	for k, t := range j.terms {
		want[t] = true
		ty := r.Types[k]
		if ty < 2 {
			return fmt.Sprintf("terminal %q has number %d", t, ty)
		}
		if ty >= n || ids[ty] != t {
			return fmt.Sprintf("Id(Type(%q)) = %q: the lookups are not mutually inverse", t, idAt(ids, ty))
		}
		tm[t] = ty
	}
	for i := 2; i < n; i++ {
		if !want[ids[i]] && ids[i] != "empty" && ids[i] != "error" {
			return fmt.Sprintf("number %d is assigned to %q, which is not a terminal of the grammar", i, ids[i])
		}
	}
	// unknown names
	for k := len(j.terms); k < len(r.Types); k++ {
		if r.Types[k] != 0 {
			return fmt.Sprintf("a name that is not a terminal maps to %d instead of INVALID (probe %d)", r.Types[k], k)
		}
	}
	return ""
}

func hasReservedTokenName(g *gram.Grammar) bool {
	for _, s := range g.SyntaxTerminals() {
		if s.Name == "INVALID" || s.Name == model.NameEOF {
			return true
		}
	}
	for _, h := range g.Heads() {
		if h == "INVALID" {
			return true
		}
	}
	return false
}

func first(s []string) string {
	if len(s) == 0 {
		return ""
	}
	return s[0]
}

func idAt(ids []string, i int) string {
	if i >= 0 && i < len(ids) {
		return ids[i]
	}
	return "?"
}

func replayC10(c *Ctx, w *Witness) error {
	if w.Grammar == nil || len(w.Strs) == 0 {
		return fmt.Errorf("bad witness")
	}
	g := w.Grammar.Clone()
	j := newC10Job("g_replay_"+w.Key()[:8], w.Strs[0], g, w.Flags)
	return runC10Jobs(c, []*c10Job{j})
}
