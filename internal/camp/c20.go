package camp

import (
	"bytes"
	"context"
	"encoding/json"
	"fmt"
	"os"
	"os/exec"
	"path/filepath"
	"strconv"
	"time"

	"github.com/goccmack/gocc/verifx/internal/gram"
	"github.com/goccmack/gocc/verifx/internal/inp"
	"github.com/goccmack/gocc/verifx/internal/run"
)

func init() {
	register(&Campaign{ID: "C20", NeedsWorkspace: true, Run: runC20, Replay: replayC20})
}

const c20Mod = "github.com/goccmack/gocc/vscratch"

// setupC20 creates a second scratch module whose path lies below gocc's module path (so
// it may import /repo's internal/util), lets the real gocc emit a util package into it and
// builds the two probes: bin/c20gen (generated util.RuneValue/IntValue/UintValue) and
// bin/c20int (gocc's own util.LitToRune).
func setupC20(c *Ctx) error {
	sub := "c20mod"
	dir := filepath.Join(c.W.Dir, sub)
	if _, err := os.Stat(filepath.Join(dir, "go.mod")); err == nil {
		return nil
	}
	if err := os.MkdirAll(dir, 0777); err != nil {
		return err
	}
	mod := "module " + c20Mod + "\n\ngo 1.24\n\nrequire github.com/goccmack/gocc v0.0.0\n\nreplace github.com/goccmack/gocc => " + run.RepoDir + "\n"
	if err := os.WriteFile(filepath.Join(dir, "go.mod"), []byte(mod), 0666); err != nil {
		return err
	}
	if sum, err := os.ReadFile(filepath.Join(run.RepoDir, "go.sum")); err == nil {
		os.WriteFile(filepath.Join(dir, "go.sum"), sum, 0666)
	}
	res := c.W.RunGocc("gu", []byte("t : 'a' ;\n"), run.GoccOpts{WorkSub: sub})
	if res.Exit != 0 {
		return fmt.Errorf("gocc could not generate a util package: exit %d %s", res.Exit, trunc(res.Stdout+res.Stderr, 300))
	}
	rep := map[string]string{"MODPATH": c20Mod, "UTILPKG": "gu"}
	if err := c.W.WriteTemplate("c20_litcheck.go.txt", filepath.Join(dir, "litcheck", "litcheck.go"), rep); err != nil {
		return err
	}
	if err := c.W.WriteTemplate("c20_main_gen.go.txt", filepath.Join(dir, "cmd", "gen", "main.go"), rep); err != nil {
		return err
	}
	if err := c.W.WriteTemplate("c20_main_int.go.txt", filepath.Join(dir, "cmd", "int", "main.go"), rep); err != nil {
		return err
	}
	for _, p := range []string{"gen", "int"} {
		if out, err := c.W.GoBuildIn(sub, filepath.Join(c.W.Dir, "bin", "c20"+p), "./cmd/"+p); err != nil {
			return fmt.Errorf("building the C20 probe %s failed: %v\n%s", p, err, trunc(out, 2000))
		}
	}
	return nil
}

func runProbe(c *Ctx, bin string, args ...string) (*inp.Result, error) {
	ctx, cancel := context.WithTimeout(context.Background(), 45*time.Minute)
	defer cancel()
	cmd := exec.CommandContext(ctx, bin, args...)
	cmd.Dir = c.W.Dir
	var so, se bytes.Buffer
	cmd.Stdout, cmd.Stderr = &so, &se
	if err := cmd.Run(); err != nil {
		if ctx.Err() != nil {
			return nil, fmt.Errorf("probe watchdog fired (inconclusive)")
		}
		return nil, fmt.Errorf("probe failed: %v: %s", err, trunc(se.String(), 1500))
	}
	var r inp.Result
	if err := json.Unmarshal(so.Bytes(), &r); err != nil {
		return nil, fmt.Errorf("bad probe result: %v: %s", err, trunc(so.String(), 300))
	}
	return &r, nil
}

func c20Witness(which string) func(v inp.Violation) *Witness {
	return func(v inp.Violation) *Witness {
		return &Witness{Kind: which + "-" + v.Kind, Strs: v.Strs, Expected: v.Expected, Observed: v.Observed, Note: which + ": " + v.Note}
	}
}

func runC20(c *Ctx) error {
	c.Rule = "three observation points: (1) util.RuneValue / IntValue / UintValue of a util package emitted by the real gocc and compiled into a probe; (2) gocc's own internal/util.LitToRune driven in process; both on every valid code point (all 1,112,064) in one spelling (quick) or every spelling (thorough: raw UTF-8, \\x, octal, \\u, \\U in both hex cases, named escapes) against strconv.UnquoteChar, and on random / boundary decimal strings against strconv.ParseInt/ParseUint; (3) literals pushed through a real gocc run (t : <lit> ;) and read back from the r == N test of the generated transitiontable.go; non-trivial = every literal that is a valid Go rune literal; distinct by literal text"
	c.Assumptions = []string{"strconv.UnquoteChar(body, '\\'') defines Go's reading of a rune literal", "raw spellings exclude ', \\, control characters and U+FEFF (not valid in Go source)"}
	if err := setupC20(c); err != nil {
		return err
	}
	for _, p := range []string{"gen", "int"} {
		r, err := runProbe(c, filepath.Join(c.W.Dir, "bin", "c20"+p), c.Tier, fmt.Sprint(c.Seed))
		if err != nil {
			return err
		}
		name := map[string]string{"gen": "generated_util_", "int": "gocc_internal_util_"}[p]
		fold(c, r, name, c20Witness(p))
		if c.Thorough() {
			c.Exhaustive = true
		}
	}
	// (3) literals through a real gocc run
	n := c.Pick(300, 2000)
	type lit struct {
		r    rune
		text string
	}
	var lits []lit
	pool := []rune{0, 9, 10, 13, 0x27, 0x5c, 0x7f, 0x80, 0xff, 0x100, 0x7ff, 0x800, 0xd7ff, 0xe000, 0xfffd, 0xffff, 0x10000, 0x10ffff}
	for len(lits) < n {
		var r rune
		if c.Rng.Intn(3) == 0 {
			r = pool[c.Rng.Intn(len(pool))]
		} else {
			r = rune(c.Rng.Intn(0x110000))
		}
		if r >= 0xd800 && r <= 0xdfff {
			continue
		}
		sp := gram.Spellings(r)
		lits = append(lits, lit{r, sp[c.Rng.Intn(len(sp))]})
	}
	run.Parallel(len(lits), func(i int) {
		l := lits[i]
		c20Gocc(c, l.text, l.r, fmt.Sprintf("l%05d", i))
	})
	c.Set("literals_through_gocc", len(lits))
	return nil
}

func c20Gocc(c *Ctx, text string, want rune, name string) {
	res := c.W.RunGocc(name, []byte("t : "+text+" ;\n"), run.GoccOpts{})
	defer os.RemoveAll(res.OutDir)
	c.Eval(1)
	w := &Witness{Kind: "gocc-lit", Strs: []string{text}, Ints: []int64{int64(want)}}
	if res.TimedOut || res.Budget || res.CPUKill || res.Hook96 {
		c.Inconclusive(name + ": gocc run could not be judged")
		return
	}
	if res.Exit != 0 {
		w.Note = fmt.Sprintf("gocc rejects the valid rune literal %s (exit %d): %s", strconv.QuoteToASCII(text), res.Exit, trunc(res.Stdout+res.Stderr, 200))
		c.Violation(w)
		return
	}
	sts, err := transTabClasses(filepath.Join(res.OutDir, "lexer", "transitiontable.go"))
	if err != nil || len(sts) == 0 || len(sts[0]) != 1 {
		c.Inconclusive(name + ": cannot read the generated transition table back")
		return
	}
	c.Nontrivial("gocc:" + text)
	got := sts[0][0]
	if got[0] != int64(want) || got[1] != int64(want) {
		w.Expected = int64(want)
		w.Observed = got
		w.Note = fmt.Sprintf("gocc reads the literal %s as %d..%d, Go reads it as %d", strconv.QuoteToASCII(text), got[0], got[1], want)
		c.Violation(w)
	}
}

func replayC20(c *Ctx, w *Witness) error {
	if w.Kind == "gocc-lit" {
		if len(w.Strs) != 1 || len(w.Ints) != 1 {
			return fmt.Errorf("bad witness")
		}
		c20Gocc(c, w.Strs[0], rune(w.Ints[0]), "l_replay_"+w.Key()[:8])
		return nil
	}
	if err := setupC20(c); err != nil {
		return err
	}
	which := "gen"
	if len(w.Kind) >= 3 && w.Kind[:3] == "int" {
		which = "int"
	}
	args := append([]string{"replay", "0"}, w.Strs...)
	r, err := runProbe(c, filepath.Join(c.W.Dir, "bin", "c20"+which), args...)
	if err != nil {
		return err
	}
	fold(c, r, "replay_", func(v inp.Violation) *Witness { x := c20Witness(which)(v); x.Kind = w.Kind; x.Strs = w.Strs; return x })
	return nil
}
