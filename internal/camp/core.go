// Package camp holds the per-property campaigns and the shared verdict/evidence plumbing.
package camp

import (
	"crypto/sha256"
	"encoding/hex"
	"encoding/json"
	"fmt"
	"math/rand"
	"os"
	"path/filepath"
	"runtime/debug"
	"sort"
	"strconv"
	"strings"
	"sync"
	"time"
	"unicode/utf8"

	"github.com/goccmack/gocc/verifx/internal/gram"
	"github.com/goccmack/gocc/verifx/internal/run"
)

var VerifRoot = "/verif"

// OutRoot is where evidence/ and replays/ are written: VerifRoot, unless VERIF_OUT redirects
// the harness's own validation runs (seeded changes) somewhere else.
func OutRoot() string {
	if v := os.Getenv("VERIF_OUT"); v != "" {
		return v
	}
	return VerifRoot
}

// Witness is one complete case: enough to re-run it (replay) and to show what was
// expected and what was observed.
type Witness struct {
	Property string        `json:"property"`
	Kind     string        `json:"kind"` // campaign-specific case kind
	Grammar  *gram.Grammar `json:"grammar,omitempty"`
	Text     string        `json:"grammar_text,omitempty"`
	Text2    string        `json:"grammar_text2,omitempty"`
	Raw      []byte        `json:"grammar_bytes,omitempty"` // exact bytes of Text when it is not valid UTF-8 (JSON strings cannot hold them)
	Flags    []string      `json:"flags,omitempty"`
	Input    []byte        `json:"input,omitempty"`
	InputStr string        `json:"input_str,omitempty"` // human-readable copy of Input
	Toks     []string      `json:"toks,omitempty"`
	FailAt   int           `json:"fail_at"`
	History  []HistItem    `json:"history,omitempty"`
	Ints     []int64       `json:"ints,omitempty"`
	Strs     []string      `json:"strs,omitempty"`
	Expected interface{}   `json:"expected,omitempty"`
	Observed interface{}   `json:"observed,omitempty"`
	Note     string        `json:"note,omitempty"`
	Seed     int64         `json:"seed"`
}

type HistItem struct {
	Toks   []string `json:"toks,omitempty"`
	Src    []byte   `json:"src,omitempty"`
	UseSrc bool     `json:"use_src,omitempty"`
	Fail   int      `json:"fail"`
	Render bool     `json:"render,omitempty"` // the caller renders the error (Error(), String(), DescribeExpected)
}

// SourceText is the exact grammar text of the case.
func (w *Witness) SourceText() string {
	if w.Raw != nil {
		return string(w.Raw)
	}
	return w.Text
}

// Key identifies a case exactly (grammar + flags + input), never by symptom.
func (w *Witness) Key() string {
	h := sha256.New()
	enc := json.NewEncoder(h)
	enc.Encode(w.Property)
	enc.Encode(w.Kind)
	if w.Grammar != nil {
		enc.Encode(w.Grammar)
	} else {
		enc.Encode([]byte(w.SourceText()))
		enc.Encode(w.Text2)
	}
	enc.Encode(w.Flags)
	enc.Encode(w.Input)
	enc.Encode(w.Toks)
	enc.Encode(w.FailAt)
	enc.Encode(w.History)
	enc.Encode(w.Ints)
	enc.Encode(w.Strs)
	return hex.EncodeToString(h.Sum(nil))[:16]
}

// KnownFinding is one entry of /verif/known_findings.json.
type KnownFinding struct {
	Property string  `json:"property"`
	ID       string  `json:"id"`
	Status   string  `json:"status"` // open | fixed
	Commit   string  `json:"commit,omitempty"`
	What     string  `json:"what"`
	Case     Witness `json:"case"`
}

type knownFile struct {
	Findings []KnownFinding `json:"findings"`
	Fixed    []string       `json:"fixed_log,omitempty"` // "fixed: property=<id> <commit> <what failed>"
}

func LoadKnown() []KnownFinding {
	b, err := os.ReadFile(filepath.Join(VerifRoot, "known_findings.json"))
	if err != nil {
		return nil
	}
	var kf knownFile
	if err := json.Unmarshal(b, &kf); err != nil {
		fmt.Fprintln(os.Stderr, "known_findings.json unreadable:", err)
		return nil
	}
	return kf.Findings
}

// Ctx is the state of one check run.
type Ctx struct {
	ID    string
	Tier  string
	Seed  int64
	Rng   *rand.Rand
	Start time.Time
	W     *run.Workspace

	mu            sync.Mutex
	evaluations   int
	nontrivial    map[string]bool
	nontrivialN   int // distinct non-trivial cases counted by a probe itself
	samples       []interface{}
	extra         map[string]interface{}
	sets          map[string]map[string]bool
	violations    []*Witness
	violKeys      map[string]bool
	inconclusive  []string
	known         []KnownFinding
	knownPrinted  map[string]bool
	Rule          string
	Assumptions   []string
	MinNontrivial int
	Exhaustive    bool
}

func (c *Ctx) Thorough() bool { return c.Tier == "thorough" }

// Pick returns q for quick and t for thorough.
func (c *Ctx) Pick(q, t int) int {
	if c.Thorough() {
		return t
	}
	return q
}

func (c *Ctx) Eval(n int) {
	c.mu.Lock()
	c.evaluations += n
	c.mu.Unlock()
}

// Nontrivial counts a distinct non-trivial case by key.
func (c *Ctx) Nontrivial(key string) {
	c.mu.Lock()
	c.nontrivial[key] = true
	c.mu.Unlock()
}

func (c *Ctx) Sample(s interface{}) {
	c.mu.Lock()
	if len(c.samples) < 6 {
		c.samples = append(c.samples, s)
	}
	c.mu.Unlock()
}

func (c *Ctx) Set(key string, v interface{}) {
	c.mu.Lock()
	c.extra[key] = v
	c.mu.Unlock()
}

func (c *Ctx) Add(key string, n int) {
	c.mu.Lock()
	cur, _ := c.extra[key].(int)
	c.extra[key] = cur + n
	c.mu.Unlock()
}

// Mark adds key to a named set; the evidence reports the set's size under that name.
func (c *Ctx) Mark(set, key string) {
	c.mu.Lock()
	m := c.sets[set]
	if m == nil {
		m = map[string]bool{}
		c.sets[set] = m
	}
	m[key] = true
	c.mu.Unlock()
}

func (c *Ctx) Max(key string, n int) {
	c.mu.Lock()
	cur, _ := c.extra[key].(int)
	if n > cur {
		c.extra[key] = n
	}
	c.mu.Unlock()
}

func (c *Ctx) Inconclusive(why string) {
	c.mu.Lock()
	if len(c.inconclusive) < 50 {
		c.inconclusive = append(c.inconclusive, why)
	}
	cur, _ := c.extra["inconclusive"].(int)
	c.extra["inconclusive"] = cur + 1
	c.mu.Unlock()
}

// Violation records a violated case unless the exact case is listed as an open known finding.
func (c *Ctx) Violation(w *Witness) {
	w.Property = c.ID
	w.Seed = c.Seed
	if w.Grammar != nil {
		// the file header depends on the scratch package name; it is re-created on replay
		g := *w.Grammar
		g.Header = ""
		w.Grammar = &g
		if w.Text == "" {
			w.Text = w.Grammar.Render(nil)
		}
	}
	if w.Grammar == nil && w.Raw == nil && !utf8.ValidString(w.Text) {
		w.Raw = []byte(w.Text)
	}
	if w.Input != nil && w.InputStr == "" {
		w.InputStr = strconv.QuoteToASCII(string(w.Input))
	}
	key := w.Key()
	c.mu.Lock()
	defer c.mu.Unlock()
	for _, k := range c.known {
		if k.Status == "open" && k.Property == c.ID && k.Case.Key() == key {
			if !c.knownPrinted[k.ID] {
				c.knownPrinted[k.ID] = true
				fmt.Printf("KNOWN-FINDING: property=%s %s: %s\n", c.ID, k.ID, k.What)
			}
			return
		}
	}
	if c.violKeys[key] {
		return
	}
	c.violKeys[key] = true
	c.violations = append(c.violations, w)
}

func (c *Ctx) NumViolations() int {
	c.mu.Lock()
	defer c.mu.Unlock()
	return len(c.violations)
}

type evidence struct {
	PropertyID  string                 `json:"property_id"`
	Tier        string                 `json:"tier"`
	Seed        int64                  `json:"seed"`
	Level       string                 `json:"level"`
	Coverage    map[string]interface{} `json:"coverage"`
	Assumptions []string               `json:"assumptions,omitempty"`
	WallS       float64                `json:"wall_s"`
	Violations  int                    `json:"violations"`
}

func (c *Ctx) writeEvidence() error {
	cov := map[string]interface{}{}
	for k, v := range c.extra {
		cov[k] = v
	}
	for k, m := range c.sets {
		cov[k] = len(m)
	}
	cov["evaluations"] = c.evaluations
	cov["distinct_nontrivial"] = len(c.nontrivial) + c.nontrivialN
	cov["rule"] = c.Rule
	if len(c.samples) == 0 {
		c.samples = append(c.samples, "no case was executed")
	}
	cov["samples"] = c.samples
	if c.Exhaustive {
		cov["exhaustive"] = true
	}
	if len(c.inconclusive) > 0 {
		cov["inconclusive_reasons"] = c.inconclusive
	}
	ev := evidence{PropertyID: c.ID, Tier: c.Tier, Seed: c.Seed, Level: "exploration", Coverage: cov,
		Assumptions: c.Assumptions, WallS: time.Since(c.Start).Seconds(), Violations: len(c.violations)}
	b, err := json.MarshalIndent(ev, "", " ")
	if err != nil {
		return err
	}
	dir := filepath.Join(OutRoot(), "evidence")
	os.MkdirAll(dir, 0777)
	return os.WriteFile(filepath.Join(dir, c.ID+".json"), append(b, '\n'), 0666)
}

// Campaign is one property's decision procedure.
type Campaign struct {
	ID  string
	Run func(c *Ctx) error
	// Replay re-runs one witness; it must call c.Violation again if the case still fails.
	Replay func(c *Ctx, w *Witness) error
	// NeedsWorkspace: build gocc and a scratch module first.
	NeedsWorkspace bool
}

var Campaigns = map[string]*Campaign{}

func register(cp *Campaign) { Campaigns[cp.ID] = cp }

// Main runs one check and returns the process exit status.
func Main(id, tier, replayPath string) int {
	cp := Campaigns[id]
	if cp == nil {
		fmt.Printf("INCONCLUSIVE unknown property %s\n", id)
		return 2
	}
	seed := int64(1)
	if s := os.Getenv("VERIF_SEED"); s != "" {
		if n, err := strconv.ParseInt(s, 10, 64); err == nil {
			seed = n
		}
	}
	if t := os.Getenv("VERIF_TIER"); t != "" && tier == "" {
		tier = t
	}
	if tier != "thorough" {
		tier = "quick"
	}
	c := &Ctx{ID: id, Tier: tier, Seed: seed, Rng: rand.New(rand.NewSource(seed*1000003 + int64(len(id)))), Start: time.Now(),
		nontrivial: map[string]bool{}, extra: map[string]interface{}{}, sets: map[string]map[string]bool{}, violKeys: map[string]bool{}, knownPrinted: map[string]bool{},
		known: LoadKnown(), MinNontrivial: 2}
	if cp.NeedsWorkspace {
		w, err := run.NewWorkspace()
		if err != nil {
			fmt.Printf("INCONCLUSIVE cannot build gocc from the working tree: %v\n", err)
			// a tree that does not build cannot be judged; evidence says so
			c.Rule = "workspace could not be built"
			c.writeEvidence()
			return 2
		}
		c.W = w
		defer w.Close()
	}
	var err error
	if replayPath != "" {
		var w Witness
		b, e := os.ReadFile(replayPath)
		if e != nil {
			fmt.Printf("INCONCLUSIVE cannot read replay %s: %v\n", replayPath, e)
			return 2
		}
		if e := json.Unmarshal(b, &w); e != nil {
			fmt.Printf("INCONCLUSIVE bad replay file: %v\n", e)
			return 2
		}
		if cp.Replay == nil {
			fmt.Printf("INCONCLUSIVE property %s has no replay\n", id)
			return 2
		}
		c.known = nil // a replay reports what it sees
		err = cp.Replay(c, &w)
		if err == nil && len(c.violations) == 0 {
			fmt.Printf("replay: case holds on the current tree\n")
			return 0
		}
	} else {
		// replay the listed findings of this property first
		if cp.Replay != nil {
			for _, k := range c.known {
				if k.Property != id {
					continue
				}
				before := len(c.violations)
				printedBefore := c.knownPrinted[k.ID]
				kc := k.Case
				kc.Property = id
				if e := cp.Replay(c, &kc); e != nil {
					c.Inconclusive("known finding " + k.ID + ": " + e.Error())
					continue
				}
				c.Add("known_findings_replayed", 1)
				if k.Status == "open" && !c.knownPrinted[k.ID] && !printedBefore && len(c.violations) == before {
					fmt.Printf("note: known finding %s of %s no longer reproduces on this tree\n", k.ID, id)
				}
			}
		}
		err = safeRun(cp, c)
	}
	if err != nil {
		c.Inconclusive(err.Error())
	}
	if e := c.writeEvidence(); e != nil {
		fmt.Println("cannot write evidence:", e)
	}
	if len(c.violations) > 0 {
		dir := filepath.Join(OutRoot(), "replays")
		os.MkdirAll(dir, 0777)
		max := len(c.violations)
		if max > 10 {
			max = 10
		}
		for _, w := range c.violations[:max] {
			p := filepath.Join(dir, fmt.Sprintf("%s-%s.json", id, w.Key()))
			b, _ := json.MarshalIndent(w, "", " ")
			os.WriteFile(p, append(b, '\n'), 0666)
			note := w.Note
			if len(note) > 300 {
				note = note[:300] + "..."
			}
			fmt.Printf("VIOLATION property=%s replay=%s  (%s)\n", id, p, strings.ReplaceAll(note, "\n", " "))
		}
		if len(c.violations) > max {
			fmt.Printf("(%d further violations not written)\n", len(c.violations)-max)
		}
		return 1
	}
	if err != nil {
		fmt.Printf("INCONCLUSIVE %s: %v\n", id, err)
		return 2
	}
	if len(c.nontrivial)+c.nontrivialN < c.MinNontrivial {
		fmt.Printf("INCONCLUSIVE %s: only %d non-trivial cases observed (minimum %d)\n", id, len(c.nontrivial)+c.nontrivialN, c.MinNontrivial)
		return 2
	}
	fmt.Printf("OK %s tier=%s seed=%d evaluations=%d distinct_nontrivial=%d inconclusive=%d wall=%.1fs\n", id, tier, seed, c.evaluations, len(c.nontrivial)+c.nontrivialN, len(c.inconclusive), time.Since(c.Start).Seconds())
	return 0
}

// safeRun: a panic inside the harness is a harness defect, never a verdict on gocc.
func safeRun(cp *Campaign, c *Ctx) (err error) {
	defer func() {
		if r := recover(); r != nil {
			err = fmt.Errorf("harness panic: %v\n%s", r, debug.Stack())
		}
	}()
	return cp.Run(c)
}

// sortedKeys is a small helper for deterministic iteration.
func sortedKeys(m map[string]bool) []string {
	out := make([]string, 0, len(m))
	for k := range m {
		out = append(out, k)
	}
	sort.Strings(out)
	return out
}
