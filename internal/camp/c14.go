package camp

import (
	"fmt"
	"math/rand"
	"os"
	"strings"

	"github.com/goccmack/gocc/verifx/internal/gram"
	"github.com/goccmack/gocc/verifx/internal/model"
	"github.com/goccmack/gocc/verifx/internal/run"
)

func init() {
	register(&Campaign{ID: "C14", NeedsWorkspace: true, Run: runC14, Replay: replayC14})
}

var insertable = []gram.FTok{
	{Text: "zz9", Type: "tokId"}, {Text: "Zz9", Type: "prodId"}, {Text: "_zz9", Type: "regDefId"}, {Text: "!zz9", Type: "ignoredTokId"},
	{Text: "'q'", Type: "char_lit"}, {Text: "\"q\"", Type: "string_lit"}, {Text: "`q`", Type: "string_lit"}, {Text: "<< 1 >>", Type: "g_sdt_lit"},
	{Text: ":", Type: ":"}, {Text: ";", Type: ";"}, {Text: "|", Type: "|"}, {Text: ".", Type: "."}, {Text: "-", Type: "-"},
	{Text: "[", Type: "["}, {Text: "]", Type: "]"}, {Text: "{", Type: "{"}, {Text: "}", Type: "}"}, {Text: "(", Type: "("}, {Text: ")", Type: ")"},
	{Text: "#", Type: "ILLEGAL"}, {Text: "@", Type: "ILLEGAL"}, {Text: "$", Type: "ILLEGAL"}, {Text: "=", Type: "ILLEGAL"}, {Text: "+", Type: "ILLEGAL"},
	{Text: ",", Type: "ILLEGAL"}, {Text: "*", Type: "ILLEGAL"}, {Text: "?", Type: "ILLEGAL"}, {Text: "~", Type: "ILLEGAL"}, {Text: "import", Type: "ILLEGAL"},
	{Text: "/", Type: "ILLEGAL"}, {Text: "\\", Type: "ILLEGAL"}, {Text: "%", Type: "ILLEGAL"}, {Text: "^", Type: "ILLEGAL"}, {Text: "&", Type: "ILLEGAL"},
	{Text: ">", Type: "ILLEGAL"}, {Text: "<", Type: "ILLEGAL"}, {Text: "/", Type: "ILLEGAL"},
	// an opening comment marker that is never closed (finding F15); a stray closing one
	{Text: "/* zz", Type: "OPEN-COMMENT"}, {Text: "/*", Type: "OPEN-COMMENT"}, {Text: "*/", Type: "ILLEGAL"},
}

type mutant struct {
	toks  []gram.FTok
	kind  string // token-level: del ins sub ; semantic: undef-prod undef-regdef dup-def empty-alt
	mustReject bool
	why   string
	text  string
}

func typesOf(toks []gram.FTok) []string {
	out := make([]string, len(toks))
	for i, t := range toks {
		out[i] = t.Type
	}
	return out
}

func cloneToks(t []gram.FTok) []gram.FTok { return append([]gram.FTok(nil), t...) }

// altStarts lists positions right after ':' or '|' inside the syntax part (starts of syntax alternatives).
func altStarts(toks []gram.FTok) []int {
	var out []int
	inSyntax := false
	for i, t := range toks {
		if t.Type == "prodId" && i+1 < len(toks) && toks[i+1].Type == ":" {
			inSyntax = true
		}
		if inSyntax && (t.Type == ":" || t.Type == "|") {
			out = append(out, i+1)
		}
	}
	return out
}

func tokenMutant(r *rand.Rand, base []gram.FTok) *mutant {
	toks := cloneToks(base)
	pos := func() int {
		if s := altStarts(toks); len(s) > 0 && r.Intn(3) == 0 {
			return s[r.Intn(len(s))]
		}
		return r.Intn(len(toks) + 1)
	}
	m := &mutant{}
	edits := 1
	if r.Intn(5) == 0 {
		edits = 2
	}
	for e := 0; e < edits; e++ {
		switch r.Intn(3) {
		case 0:
			if len(toks) == 0 {
				continue
			}
			p := pos()
			if p >= len(toks) {
				p = len(toks) - 1
			}
			toks = append(toks[:p:p], toks[p+1:]...)
			m.kind += "del "
		case 1:
			p := pos()
			n := 1
			if r.Intn(4) == 0 {
				n = 2 + r.Intn(3)
			}
			var ins []gram.FTok
			for k := 0; k < n; k++ {
				ins = append(ins, insertable[r.Intn(len(insertable))])
			}
			toks = append(toks[:p:p], append(ins, toks[p:]...)...)
			m.kind += "ins "
		case 2:
			if len(toks) == 0 {
				continue
			}
			p := pos()
			if p >= len(toks) {
				p = len(toks) - 1
			}
			toks[p] = insertable[r.Intn(len(insertable))]
			m.kind += "sub "
		}
	}
	m.toks = toks
	return m
}

func semanticMutant(r *rand.Rand, g *gram.Grammar) *mutant {
	toks := g.Tokens(nil)
	switch r.Intn(4) {
	case 0: // undefined production
		var refs []int
		for i, t := range toks {
			if t.Type == "prodId" && !(i+1 < len(toks) && toks[i+1].Type == ":") {
				refs = append(refs, i)
			}
		}
		if len(refs) == 0 {
			return nil
		}
		toks[refs[r.Intn(len(refs))]].Text = "Zq9Undefined"
		return &mutant{toks: toks, kind: "undef-prod", mustReject: true, why: "uses an undefined syntax production"}
	case 1: // undefined regular definition (anywhere, also inside a regular definition no token uses)
		if r.Intn(2) == 0 {
			// a new regular definition that nothing uses, with the undefined reference in one of
			// the places a scan of its body could stop short of
			ch := func(c string) gram.FTok { return gram.FTok{Text: "'" + c + "'", Type: "char_lit"} }
			p := func(s string) gram.FTok { return gram.FTok{Text: s, Type: s} }
			undef := gram.FTok{Text: "_zq9undefined", Type: "regDefId"}
			shapes := [][]gram.FTok{
				{p("("), ch("a"), p(")"), undef},
				{p("["), ch("a"), p("]"), ch("b"), undef},
				{p("{"), ch("a"), p("}"), undef, ch("c")},
				{ch("a"), p("|"), p("("), ch("b"), p(")"), p("|"), undef},
				{p("("), ch("a"), p("|"), undef, p(")")},
				{p("{"), p("["), undef, p("]"), p("}")},
				{ch("a"), p("-"), ch("c"), undef},
				{ch("a"), p("|"), ch("b"), p("|"), ch("c"), undef},
				{p("."), p("("), ch("a"), p(")"), p("["), ch("b"), p("]"), undef},
			}
			def := append([]gram.FTok{{Text: "_zq_unused", Type: "regDefId"}, p(":")}, shapes[r.Intn(len(shapes))]...)
			def = append(def, p(";"))
			return &mutant{toks: append(def, toks...), kind: "undef-regdef", mustReject: true, why: "uses an undefined regular definition"}
		}
		var refs []int
		for i, t := range toks {
			if t.Type == "regDefId" && !(i+1 < len(toks) && toks[i+1].Type == ":") {
				refs = append(refs, i)
			}
		}
		if len(refs) == 0 {
			return nil
		}
		toks[refs[r.Intn(len(refs))]].Text = "_zq9undefined"
		return &mutant{toks: toks, kind: "undef-regdef", mustReject: true, why: "uses an undefined regular definition"}
	case 2: // duplicated definition
		var defs [][2]int
		for i, t := range toks {
			if (t.Type == "tokId" || t.Type == "regDefId" || t.Type == "ignoredTokId") && i+1 < len(toks) && toks[i+1].Type == ":" && (i == 0 || toks[i-1].Type == ";") {
				for j := i; j < len(toks); j++ {
					if toks[j].Type == ";" {
						defs = append(defs, [2]int{i, j + 1})
						break
					}
				}
			}
		}
		if len(defs) == 0 {
			return nil
		}
		d := defs[r.Intn(len(defs))]
		switch r.Intn(3) {
		case 0:
			d = defs[0] // the very first definition of the file
		case 1:
			d = defs[len(defs)-1]
		}
		at := defs[r.Intn(len(defs))][1] // insert the copy after some lexical definition
		dup := cloneToks(toks[d[0]:d[1]])
		out := append(cloneToks(toks[:at]), append(dup, toks[at:]...)...)
		return &mutant{toks: out, kind: "dup-def", mustReject: true, why: "defines " + toks[d[0]].Text + " twice"}
	case 3: // all symbols of an alternative deleted
		starts := altStarts(toks)
		if len(starts) == 0 {
			return nil
		}
		s := starts[r.Intn(len(starts))]
		e := s
		for e < len(toks) && toks[e].Type != "|" && toks[e].Type != ";" && toks[e].Type != "g_sdt_lit" {
			e++
		}
		if e == s {
			return nil
		}
		out := append(cloneToks(toks[:s]), toks[e:]...)
		return &mutant{toks: out, kind: "empty-alt", mustReject: true, why: "leaves an alternative empty without the 'empty' keyword"}
	}
	return nil
}

func runC14(c *Ctx) error {
	n := c.Pick(300, 6000)
	c.Rule = "well-formed grammars (lexical + syntax part) mutated at the front-end token level (deletion, insertion of 1-4 tokens incl. illegal characters, substitution; one or two edits, biased to the starts of syntax alternatives) and by the listed semantic faults (reference renamed to an undefined production / regular definition, duplicated definition, alternative emptied); a mutant must make gocc exit non-zero when its token-type sequence is not a sentence of M-SPEC or when it carries a listed fault; mutants that are still well-formed are run but not judged; one evaluation = one gocc run; non-trivial = judged mutant (must-reject); distinct by mutated text"
	c.Assumptions = []string{"M-SPEC = spec/gocc2.ebnf read by the harness's own reader, front-end token types as the scanner assigns them (the words error/empty scan as tokId)", "semantic faults are injected one at a time into otherwise well-formed grammars"}
	spec, err := model.LoadMSpec(run.RepoDir)
	if err != nil {
		return err
	}
	type unit struct {
		g *gram.Grammar
		m *mutant
	}
	var units []unit
	for len(units) < n {
		g := richGrammar(c.Rng)
		if c.Rng.Intn(3) == 0 {
			// tokens the syntax part uses without a lexical definition (hand-written lexer style): only a warning
			var lex []gram.LexDef
			for _, d := range g.Lex {
				if d.Kind == gram.DTok && len(d.Name) == 1 && c.Rng.Intn(2) == 0 {
					continue
				}
				lex = append(lex, d)
			}
			g.Lex = lex
		}
		base := g.Tokens(nil)
		if !spec.Accepts(typesOf(base)) {
			return fmt.Errorf("harness self-check: M-SPEC rejects a well-formed generated grammar:\n%s", g.Render(nil))
		}
		for k := 0; k < 6 && len(units) < n; k++ {
			var m *mutant
			slash := false
			if c.Rng.Intn(10) == 0 {
				// a stray "/" (or "*") somewhere in a file that has comments further on
				slash = true
				toks := cloneToks(base)
				p := c.Rng.Intn(len(toks) + 1)
				st := gram.FTok{Text: []string{"/", "/", "*"}[c.Rng.Intn(3)], Type: "ILLEGAL"}
				if c.Rng.Intn(3) == 0 && p < len(toks) {
					toks[p] = st
				} else {
					toks = append(toks[:p:p], append([]gram.FTok{st}, toks[p:]...)...)
				}
				m = &mutant{toks: toks, kind: "stray-slash ", mustReject: true, why: "token sequence is not a sentence of spec/gocc2.ebnf"}
			} else if c.Rng.Intn(4) == 0 {
				m = semanticMutant(c.Rng, g)
			} else {
				m = tokenMutant(c.Rng, base)
				if m != nil && !spec.Accepts(typesOf(m.toks)) {
					m.mustReject = true
					m.why = "token sequence is not a sentence of spec/gocc2.ebnf"
				}
			}
			if m != nil {
				// a third of the mutants is laid out with comments and odd white space between the
				// tokens: what a stray character does may depend on a comment further on
				var lo *gram.RenderOpts
				if slash || c.Rng.Intn(3) == 0 {
					lo = &gram.RenderOpts{R: rand.New(rand.NewSource(c.Rng.Int63())), RandLayout: true}
				}
				for k := range m.toks {
					if t := m.toks[k]; t.Type == "ILLEGAL" || t.Type == "OPEN-COMMENT" {
						m.toks[k].Text = " " + strings.TrimSpace(t.Text) + " " // never glued to a comment marker of the layout
					}
				}
				m.text = gram.Join(m.toks, lo)
				if lo == nil && c.Rng.Intn(12) == 0 {
					// a physical line of more than 64 KiB (a comment) somewhere between two
					// definitions: what follows it is still part of the file
					var starts []int
					for k := 0; k < len(m.text)-1; k++ {
						if m.text[k] == '\n' {
							starts = append(starts, k+1)
						}
					}
					if len(starts) > 0 {
						at := starts[c.Rng.Intn(len(starts))]
						m.text = m.text[:at] + "// " + strings.Repeat("long comment ", 5200) + "\n" + m.text[at:]
					}
				}
				// an inserted comment opener that meets a "*/" further on (in a literal, a comment
				// of the layout, an inserted stray closer) is a well-formed comment: what is left of
				// the file is then not judged
				for _, t := range m.toks {
					if t.Type == "OPEN-COMMENT" {
						if i := strings.Index(m.text, t.Text); i >= 0 && strings.Contains(m.text[i+3:], "*/") {
							m.mustReject = false
						}
					}
				}
				units = append(units, unit{g, m})
			}
		}
	}
	run.Parallel(len(units), func(i int) {
		u := units[i]
		judgeMutant(c, u.m.text, u.m.mustReject, u.m.kind, u.m.why, fmt.Sprintf("g%05d", i), i%701 == 0)
	})
	return nil
}

func judgeMutant(c *Ctx, text string, mustReject bool, kind, why, name string, sample bool) {
	res := c.W.RunGocc(name, []byte(text), run.GoccOpts{Flags: []string{"-a"}})
	defer os.RemoveAll(res.OutDir)
	c.Eval(1)
	if res.TimedOut || res.Budget || res.CPUKill || res.Hook96 {
		c.Inconclusive(fmt.Sprintf("%s: gocc run could not be judged (termination is C09's subject): timedOut=%v budget=%v cpuKill=%v hook96=%v exit=%d stderr=%s text=%q", name, res.TimedOut, res.Budget, res.CPUKill, res.Hook96, res.Exit, trunc(res.Stderr, 300), trunc(text, 1500)))
		return
	}
	c.Add("mutants_"+strings.Fields(kind + " x")[0], 1)
	if sample {
		c.Sample(map[string]interface{}{"mutant": text, "kind": kind, "must_reject": mustReject, "why": why, "exit": res.Exit, "stdout": trunc(res.Stdout, 200)})
	}
	if !mustReject {
		c.Add("mutants_still_well_formed_not_judged", 1)
		return
	}
	c.Nontrivial(text)
	if res.Exit == 0 {
		c.Violation(&Witness{Kind: "c14", Text: text, Strs: []string{kind, why}, Expected: "non-zero exit status: the file " + why,
			Observed: map[string]interface{}{"exit": 0, "stdout": trunc(res.Stdout, 300), "stderr": trunc(res.Stderr, 300)},
			Note: "gocc exits 0 on a file that " + why + " (" + strings.TrimSpace(kind) + ")"})
	}
}

func replayC14(c *Ctx, w *Witness) error {
	kind, why := "replay", "is ill-formed"
	if len(w.Strs) == 2 {
		kind, why = w.Strs[0], w.Strs[1]
	}
	judgeMutant(c, w.SourceText(), true, kind, why, "g_replay_"+w.Key()[:8], false)
	return nil
}
