package camp

import (
	"encoding/json"
	"fmt"
	"math/rand"
	"os"
	"path/filepath"
	"strings"

	"github.com/goccmack/gocc/verifx/internal/gram"
	"github.com/goccmack/gocc/verifx/internal/model"
)

func init() {
	register(&Campaign{ID: "C12", NeedsWorkspace: true, Run: runC12, Replay: replayC12})
}

var presFlags = []string{"-zip", "-debug_lexer", "-debug_parser", "-v", "-no_lexer"}

// flagSubsets: every valid subset of the presentation flags (no_lexer excludes debug_lexer): 24.
func flagSubsets() [][]string {
	var out [][]string
	for m := 0; m < 1<<len(presFlags); m++ {
		var fl []string
		for i, f := range presFlags {
			if m&(1<<i) != 0 {
				fl = append(fl, f)
			}
		}
		if hasFlag(fl, "-no_lexer") && hasFlag(fl, "-debug_lexer") {
			continue
		}
		out = append(out, fl)
	}
	return out
}

type c12Variant struct {
	job   *SynJob
	flags []string
}

type c12Group struct {
	base     *SynJob
	variants []*c12Variant
	inputs   [][]int
	srcs     [][]byte
}

func runC12(c *Ctx) error {
	nG := c.Pick(6, 40)
	nSub := c.Pick(8, 24)
	nIn := c.Pick(300, 1000)
	c.Rule = fmt.Sprintf("per grammar (clean, conflicting with -a, with error alternatives; simple lexical part): the flag-less variant and %d variants with subsets of {-zip,-debug_lexer,-debug_parser,-v,-no_lexer} are generated, compiled and driven with the same inputs (token sequences by name, and source text through the generated lexer where one exists); complete parse observations (event log, result, error token/position, expected list), lexer token streams with positions, and the decoded action/goto/production tables dumped entry by entry must equal the flag-less variant's; with -no_lexer the lexer directory must be absent; one evaluation = one (variant, input) comparison; non-trivial = comparison of a variant carrying at least one flag; distinct by (grammar, flags, input)", nSub)
	c.Assumptions = []string{"-a is held constant across variants (it is not a presentation flag)", "debug output goes to stdout and is ignored"}
	rng := c.Rng
	subsets := flagSubsets()
	var groups []*c12Group
	var all []*SynJob
	inRng := rand.New(rand.NewSource(c.Seed*67 + 29))
	for gi := 0; gi < nG; gi++ {
		f := synFilter{nonEmpty: true, actionMode: 0, simpleLex: true, class: func(k model.LRClass) bool { return k != model.ClassAcceptReduce }}
		if gi%6 == 3 {
			f.family = func(int) string { return "deadnt" }
			f.nonEmpty = false
		}
		if gi%6 == 4 {
			f.family = func(int) string { return "manyterms" } // token types beyond 255
		}
		switch gi % 3 {
		case 1:
			f.ambiguous = true
		case 2:
			f.withErrors = true
			f.actionMode = 1
			// statement lists: after a complete statement the parser reduces with 'error' as
			// look-ahead, which is where "has an entry for error" and "can shift error" part
			fam := []string{"stmts", "errorder"}[(gi/3)%2]
			f.family = func(int) string { return fam }
		}
		js := genSynJobs(rng, 1, fmt.Sprintf("b%02d_", gi), f)
		if len(js) == 0 {
			continue
		}
		base := js[0]
		base.Flags = []string{"-a"}
		// tokens the syntax part never uses: numbered after the used ones, in every variant alike
		for k := 0; k < 1+rng.Intn(3); k++ {
			base.G.Lex = append(base.G.Lex, gram.LexDef{Kind: gram.DTok, Name: fmt.Sprintf("zz_unused%d", k), Pat: gram.StrPattern(fmt.Sprintf("#%d", k))})
		}
		// one named token gets lexemes of arbitrary length: x {x}
		longTok := ""
		for di := range base.G.Lex {
			d := &base.G.Lex[di]
			if d.Kind == gram.DTok && len(d.Name) == 1 {
				longTok = d.Name
				c0 := rune(d.Name[0])
				d.Pat = gram.Seq(gram.Lit(c0), gram.Rep(gram.Seq(gram.Lit(c0))))
				break
			}
		}
		grp := &c12Group{base: base}
		// choose subsets: all in thorough, a rotating selection in quick (always containing each single flag over the run)
		var chosen [][]string
		if nSub >= len(subsets)-1 {
			chosen = subsets[1:]
		} else {
			perm := rng.Perm(len(subsets) - 1)
			for _, p := range perm[:nSub] {
				chosen = append(chosen, subsets[p+1])
			}
			chosen[0] = []string{presFlags[gi%len(presFlags)]}
		}
		for vi, fl := range chosen {
			vj, err := NewSynJob(fmt.Sprintf("%sv%02d", base.Name, vi), base.G.Clone(), append([]string{"-a"}, fl...))
			if err != nil {
				continue
			}
			grp.variants = append(grp.variants, &c12Variant{vj, fl})
			all = append(all, vj)
		}
		all = append(all, base)
		for _, in := range model.InputPool(inRng, base.CFG, nIn, 3) {
			grp.inputs = append(grp.inputs, in)
			if inRng.Intn(3) == 0 {
				names := append([]string(nil), base.Names(in)...)
				for k, n := range names {
					if n == longTok && inRng.Intn(2) == 0 {
						names[k] = strings.Repeat(n, 1+inRng.Intn(70)) // long lexemes (longer than any fixed-size buffer)
					}
				}
				src := srcOf(names, inRng)
				if inRng.Intn(4) == 0 {
					src = append(src, []string{" #0", " #1 #0", "#2"}[inRng.Intn(3)]...)
				}
				if inRng.Intn(4) == 0 {
					src = append(src, []string{" ?", "\n", "\t#\n", "~"}[inRng.Intn(4)]...)
				}
				grp.srcs = append(grp.srcs, src)
			}
		}
		groups = append(groups, grp)
	}
	return runC12Groups(c, groups, all)
}

func runC12Groups(c *Ctx, groups []*c12Group, all []*SynJob) error {
	gj := genJobsOf(all)
	c.GenerateAll(gj, true)
	bin, err := c.BuildDriver(gj, "c12drv", false)
	if err != nil {
		return err
	}
	type key struct {
		job  string
		kind string
		idx  int
	}
	var cases []*DCase
	index := map[key]int{}
	addCases := func(j *SynJob, grp *c12Group) {
		if j.Dropped != "" {
			return
		}
		index[key{j.Name, "dump", 0}] = len(cases)
		cases = append(cases, &DCase{G: j.Name, Op: "dump"})
		for i, in := range grp.inputs {
			index[key{j.Name, "parse", i}] = len(cases)
			cases = append(cases, &DCase{G: j.Name, Op: "parse", Feed: &DFeed{Toks: j.Names(in), Fail: -1}})
		}
		if j.Info != nil && j.Info.HasLexer {
			for i, s := range grp.srcs {
				index[key{j.Name, "lex", i}] = len(cases)
				cases = append(cases, &DCase{G: j.Name, Op: "lex", Src: s})
				index[key{j.Name, "psrc", i}] = len(cases)
				cases = append(cases, &DCase{G: j.Name, Op: "parse", Feed: &DFeed{Src: s, UseSrc: true, Fail: -1}})
			}
		}
	}
	for _, grp := range groups {
		addCases(grp.base, grp)
		for _, v := range grp.variants {
			addCases(v.job, grp)
		}
	}
	if len(cases) == 0 {
		return fmt.Errorf("no case could be built")
	}
	results, err := c.RunCases(bin, cases, 1, nil)
	if err != nil {
		return err
	}
	eq := func(a, b interface{}) bool {
		x, _ := json.Marshal(a)
		y, _ := json.Marshal(b)
		return string(x) == string(y)
	}
	for gi, grp := range groups {
		if grp.base.Dropped != "" {
			c.Inconclusive(grp.base.Name + ": flag-less variant unavailable: " + grp.base.Dropped)
			continue
		}
		for _, v := range grp.variants {
			w := &Witness{Kind: "c12", Grammar: grp.base.G, Flags: v.flags}
			if v.job.Dropped != "" {
				if v.job.Res.Exit != 0 {
					w.Note = fmt.Sprintf("gocc exits %d with %v but 0 without these flags: %s", v.job.Res.Exit, v.flags, trunc(v.job.Res.Stdout+v.job.Res.Stderr, 300))
					c.Violation(w)
				} else {
					c.Inconclusive(v.job.Name + ": " + v.job.Dropped)
				}
				continue
			}
			c.Mark("flag_sets_exercised", strings.Join(v.flags, " "))
			if hasFlag(v.flags, "-no_lexer") {
				if _, err := os.Stat(filepath.Join(c.W.Dir, v.job.Name, "lexer")); err == nil {
					w.Note = "-no_lexer but a lexer directory was written"
					c.Violation(w)
					continue
				}
			} else if v.job.Info == nil || !v.job.Info.HasLexer {
				w.Note = fmt.Sprintf("no lexer was generated with flags %v", v.flags)
				c.Violation(w)
				continue
			}
			bd, vd := results[index[key{grp.base.Name, "dump", 0}]], results[index[key{v.job.Name, "dump", 0}]]
			c.Eval(1)
			if bd.Text != vd.Text || bd.Text == "" {
				w.Expected, w.Observed = trunc(bd.Text, 1500), trunc(vd.Text, 1500)
				w.Note = fmt.Sprintf("decoded action/goto/production tables differ from the flag-less variant's with flags %v", v.flags)
				c.Violation(w)
				continue
			}
			bad := false
			for i, in := range grp.inputs {
				a, b := results[index[key{grp.base.Name, "parse", i}]], results[index[key{v.job.Name, "parse", i}]]
				c.Eval(1)
				c.Nontrivial(fmt.Sprintf("%s/%v/%d", grp.base.Name, v.flags, i))
				if !eq(a.P, b.P) {
					w.Toks = grp.base.Names(in)
					w.Expected, w.Observed = a.P, b.P
					w.Note = fmt.Sprintf("parse observation differs from the flag-less variant's with flags %v", v.flags)
					c.Violation(w)
					bad = true
					break
				}
			}
			if bad || hasFlag(v.flags, "-no_lexer") {
				continue
			}
			for i, s := range grp.srcs {
				a, b := results[index[key{grp.base.Name, "lex", i}]], results[index[key{v.job.Name, "lex", i}]]
				pa, pb := results[index[key{grp.base.Name, "psrc", i}]], results[index[key{v.job.Name, "psrc", i}]]
				c.Eval(2)
				c.Nontrivial(fmt.Sprintf("%s/%v/src%d", grp.base.Name, v.flags, i))
				if !eq(a.Toks, b.Toks) || a.Err != b.Err {
					w.Input = s
					w.Expected, w.Observed = fmtDToks(a.Toks), fmtDToks(b.Toks)
					w.Note = fmt.Sprintf("token stream / positions differ from the flag-less variant's with flags %v", v.flags)
					c.Violation(w)
					break
				}
				if !eq(pa.P, pb.P) {
					w.Input = s
					w.Expected, w.Observed = pa.P, pb.P
					w.Note = fmt.Sprintf("parse through the lexer differs from the flag-less variant's with flags %v", v.flags)
					c.Violation(w)
					break
				}
			}
		}
		if gi == 0 {
			c.Sample(map[string]interface{}{"grammar": grp.base.G.Render(nil), "variants": len(grp.variants), "inputs": len(grp.inputs), "sources": len(grp.srcs), "first_variant_flags": grp.variants[0].flags})
		}
	}
	c.Set("grammars", len(groups))
	return nil
}

func replayC12(c *Ctx, w *Witness) error {
	if w.Grammar == nil {
		return fmt.Errorf("witness without grammar")
	}
	base, err := NewSynJob("b_replay_"+w.Key()[:6], w.Grammar.Clone(), []string{"-a"})
	if err != nil {
		return err
	}
	vj, err := NewSynJob("b_replay_"+w.Key()[:6]+"v", w.Grammar.Clone(), append([]string{"-a"}, w.Flags...))
	if err != nil {
		return err
	}
	grp := &c12Group{base: base, variants: []*c12Variant{{vj, w.Flags}}}
	r := rand.New(rand.NewSource(11))
	for _, in := range model.InputPool(r, base.CFG, 300, 3) {
		grp.inputs = append(grp.inputs, in)
		if r.Intn(3) == 0 && len(base.G.Lex) > 0 {
			grp.srcs = append(grp.srcs, srcOf(base.Names(in), r))
		}
	}
	if ids, ok := base.IDs(w.Toks); ok && len(w.Toks) > 0 {
		grp.inputs = append(grp.inputs, ids)
	}
	if w.Input != nil {
		grp.srcs = append(grp.srcs, w.Input)
	}
	return runC12Groups(c, []*c12Group{grp}, []*SynJob{base, vj})
}

var _ = gram.AddSimpleLex
