package camp

import (
	"fmt"
	"math/rand"
	"os"
	"path/filepath"
	"sort"
	"strings"

	"github.com/goccmack/gocc/verifx/internal/model"
)

func init() {
	register(&Campaign{ID: "C17", NeedsWorkspace: true, Run: runC17, Replay: replayC17})
}

// raceReports reads the GORACE log files and returns the distinct reports, keyed by the
// pair of top frames of the two conflicting accesses.
func raceReports(dir string) (total int, distinct map[string]string) {
	distinct = map[string]string{}
	files, _ := filepath.Glob(filepath.Join(dir, "race.*"))
	for _, f := range files {
		b, err := os.ReadFile(f)
		if err != nil {
			continue
		}
		for _, blk := range strings.Split(string(b), "==================") {
			if !strings.Contains(blk, "WARNING: DATA RACE") {
				continue
			}
			total++
			var tops []string
			lines := strings.Split(blk, "\n")
			for i, l := range lines {
				t := strings.TrimSpace(l)
				if (strings.HasPrefix(t, "Write at") || strings.HasPrefix(t, "Read at") || strings.HasPrefix(t, "Previous write at") || strings.HasPrefix(t, "Previous read at")) && i+1 < len(lines) {
					tops = append(tops, strings.TrimSpace(lines[i+1]))
				}
			}
			sort.Strings(tops)
			k := strings.Join(tops, " <-> ")
			if _, ok := distinct[k]; !ok {
				distinct[k] = trunc(blk, 2500)
			}
		}
	}
	return
}

func runC17(c *Ctx) error {
	nG := c.Pick(4, 16)
	nItems := c.Pick(300, 1200)
	G := c.Pick(16, 32)
	repeat := c.Pick(3, 5)
	c.Rule = fmt.Sprintf("batch driver built with -race; per grammar (plain and -zip tables, with and without error alternatives): a sequential pass records the expected observation of every input, then %d goroutines released by one barrier, each with its own lexer/parser/recorder objects (reused within the goroutine, sometimes fresh), run all inputs in a goroutine-specific order %d times, rendering every error (Error(), String(), DescribeExpected, DescribeToken, TokMap lookups); oracle: zero race-detector reports and every goroutine's observations equal the sequential ones; one evaluation = one Parse call made concurrently; non-trivial = input that was parsed by overlapping goroutines; distinct by (grammar, input); a run whose measured overlap is below 2 in-flight calls is inconclusive", G, repeat)
	c.Assumptions = []string{"the race detector sees only the accesses the workload performs", "the recorder is goroutine-local and reached through $Context; the monitor shares no state between goroutines"}
	rng := c.Rng
	var jobs []*SynJob
	half := (nG + 1) / 2
	base := genSynJobs(rng, half, "b", synFilter{class: func(k model.LRClass) bool { return k == model.ClassClean }, nonEmpty: true, actionMode: 0, simpleLex: true,
		family: func(i int) string { return []string{"brackets", "expr", "", "list", ""}[i%5] }})
	errs := genSynJobs(rng, nG-half, "e", synFilter{class: func(k model.LRClass) bool { return k != model.ClassAcceptReduce }, withErrors: true, nonEmpty: true, actionMode: 1, simpleLex: true})
	for _, j := range append(base, errs...) {
		// plain and -zip variant of the same grammar
		p, err1 := NewSynJob(j.Name+"p", j.G.Clone(), []string{"-a"})
		z, err2 := NewSynJob(j.Name+"z", j.G.Clone(), []string{"-a", "-zip"})
		if err1 == nil && err2 == nil {
			jobs = append(jobs, p, z)
		}
	}
	inRng := rand.New(rand.NewSource(c.Seed*59 + 19))
	items := map[string][]*DFeed{}
	for _, j := range jobs {
		pool := model.InputPool(inRng, j.CFG, nItems, 3)
		// deep inputs (stack beyond its initial capacity), several of them so that goroutines overlap on them
		pool = append(pool, model.LongSentences(inRng, j.CFG, 6, 110)...)
		deep := model.DeepSentences(inRng, j.LR, 10, 110)
		pool = append(pool, deep...)
		c.Add("inputs_with_parse_stack_deeper_than_100", len(deep))
		var fs []*DFeed
		for _, in := range pool {
			f := &DFeed{Toks: j.Names(in), Fail: -1, Render: true}
			if inRng.Intn(6) == 0 {
				f.Fail = inRng.Intn(3)
			}
			if inRng.Intn(3) == 0 {
				src := srcOf(f.Toks, inRng)
				if inRng.Intn(2) == 0 {
					// characters beyond ASCII (1-4 byte encodings, also ill-formed bytes) somewhere in the text
					junk := []string{"é", "λ", "中", "😀", "\xff", "ß ü", "\u00a0"}[inRng.Intn(7)]
					k := inRng.Intn(len(src) + 1)
					src = append(src[:k:k], append([]byte(" "+junk+" "), src[k:]...)...)
				}
				f.UseSrc, f.Src, f.Toks = true, src, nil
			}
			fs = append(fs, f)
		}
		items[j.Name] = fs
	}
	return runConc(c, jobs, items, G, repeat)
}

func runConc(c *Ctx, jobs []*SynJob, items map[string][]*DFeed, G, repeat int) error {
	// every second source-fed input lives in a file of its own and is read through NewLexerFile
	// (the constructor is part of the generated code too; positions then carry the file's name)
	srcDir := filepath.Join(c.W.Dir, "srcfiles")
	os.MkdirAll(srcDir, 0777)
	nFiles := 0
	for _, j := range jobs {
		for i, f := range items[j.Name] {
			if f.UseSrc && i%2 == 0 {
				f.File = filepath.Join(srcDir, fmt.Sprintf("%s_%d.txt", j.Name, i))
				if err := os.WriteFile(f.File, f.Src, 0666); err != nil {
					return err
				}
				nFiles++
			}
		}
	}
	c.Set("inputs_read_through_NewLexerFile", nFiles)
	gj := genJobsOf(jobs)
	c.GenerateAll(gj, true)
	bin, err := c.BuildDriver(gj, "c17drv", true)
	if err != nil {
		return err
	}
	raceDir := filepath.Join(c.W.Dir, "racelogs")
	os.MkdirAll(raceDir, 0777)
	env := []string{"GORACE=halt_on_error=0 exitcode=0 log_path=" + filepath.Join(raceDir, "race")}
	// pass 1, its own process: the sequential observations of every input
	var seqCases []*DCase
	var live []*SynJob
	for _, j := range jobs {
		if j.Dropped != "" {
			c.Inconclusive(j.Name + ": " + j.Dropped)
			continue
		}
		live = append(live, j)
		for _, f := range items[j.Name] {
			seqCases = append(seqCases, &DCase{G: j.Name, Op: "parse", Feed: f})
		}
	}
	if len(seqCases) == 0 {
		return fmt.Errorf("no concurrency case could be built")
	}
	seq, err := c.RunCases(bin, seqCases, 1, env)
	if err != nil {
		return err
	}
	// pass 2, a fresh process: goroutines start cold
	var cases []*DCase
	k := 0
	for _, j := range live {
		var exp []DPResult
		for range items[j.Name] {
			if seq[k].P != nil {
				exp = append(exp, *seq[k].P)
			} else {
				exp = append(exp, DPResult{End: "driver-error", Msg: seq[k].Err})
			}
			k++
		}
		cases = append(cases, &DCase{G: j.Name, Op: "conc", Items: items[j.Name], Goroutines: G, Repeat: repeat, Seed: c.Seed, Expect: exp})
	}
	results, err := c.RunCases(bin, cases, 1, env)
	if err != nil {
		return err
	}
	minOverlap := 1 << 30
	for i, r := range results {
		j := live[i]
		c.Eval(r.Calls)
		c.mu.Lock()
		c.nontrivialN += len(items[j.Name]) // distinct (grammar, input) pairs that were run concurrently
		c.mu.Unlock()
		if r.MaxOverlap < minOverlap {
			minOverlap = r.MaxOverlap
		}
		c.Max("max_overlapping_calls", r.MaxOverlap)
		if r.Err != "" {
			c.Violation(&Witness{Kind: "conc", Grammar: j.G, Flags: j.Flags, Ints: []int64{int64(G), int64(repeat)}, Note: "concurrent run failed: " + r.Err})
			continue
		}
		if len(r.Mismatches) > 0 {
			c.Violation(&Witness{Kind: "conc", Grammar: j.G, Flags: j.Flags, Ints: []int64{int64(G), int64(repeat)}, Observed: r.Mismatches,
				Note: "a goroutine obtained a result that differs from the sequential one: " + trunc(r.Mismatches[0], 400)})
		}
		if r.MaxOverlap < 2 {
			c.Inconclusive(fmt.Sprintf("%s: at most %d calls were in flight at once", j.Name, r.MaxOverlap))
		}
		if i == 0 {
			c.Sample(map[string]interface{}{"grammar": j.G.Render(nil), "flags": j.Flags, "goroutines": G, "repeat": repeat, "inputs": len(items[j.Name]), "concurrent_calls": r.Calls, "max_overlap": r.MaxOverlap, "first_inputs": items[j.Name][:min(3, len(items[j.Name]))]})
		}
	}
	total, distinct := raceReports(raceDir)
	c.Set("race_reports_total", total)
	c.Set("race_reports_distinct", len(distinct))
	c.Set("grammars", len(live))
	c.Set("goroutines", G)
	c.Set("min_overlap_over_grammars", minOverlap)
	n := 0
	for k, blk := range distinct {
		n++
		if n > 5 {
			break
		}
		c.Violation(&Witness{Kind: "race", Strs: []string{k}, Grammar: live[0].G, Observed: blk, Note: "race detector report in generated code: " + trunc(k, 300)})
	}
	return nil
}

func replayC17(c *Ctx, w *Witness) error {
	if w.Grammar == nil {
		return fmt.Errorf("witness without grammar IR")
	}
	j, err := NewSynJob("g_replay_"+w.Key()[:8], w.Grammar.Clone(), w.Flags)
	if err != nil {
		return err
	}
	r := rand.New(rand.NewSource(7))
	var fs []*DFeed
	for _, in := range model.InputPool(r, j.CFG, 300, 3) {
		fs = append(fs, &DFeed{Toks: j.Names(in), Fail: -1, Render: true})
	}
	return runConc(c, []*SynJob{j}, map[string][]*DFeed{j.Name: fs}, 16, 3)
}
