package camp

import (
	"encoding/json"
	"fmt"
	"os"
	"path/filepath"
	"regexp"
	"strings"
	"time"

	"github.com/goccmack/gocc/verifx/internal/gram"
	"github.com/goccmack/gocc/verifx/internal/run"
)

// GenJob is one grammar handed to the real gocc.
type GenJob struct {
	Name    string
	G       *gram.Grammar
	Text    string
	Flags   []string
	Ext     string
	Res     run.GoccResult
	Info    *run.GenInfo
	Dropped string // why the grammar left the batch ("" = still in)
	Tag     interface{}
}

// GenerateAll runs gocc on every job in parallel. Jobs that exit non-zero are marked
// Dropped (the caller decides whether that is a verdict for its property).
func (c *Ctx) GenerateAll(jobs []*GenJob, keepParser bool) {
	run.Parallel(len(jobs), func(i int) {
		j := jobs[i]
		if j.Text == "" && j.G != nil {
			j.Text = j.G.Render(nil)
		}
		if j.G != nil && j.Ext == "" && (i%5 == 1 || i%5 == 3) {
			// the output directory is not always empty when gocc is run: two grammars in five find
			// there the output of an earlier generation of a sibling grammar - same names, token
			// declarations and alternatives in another order, so the files have the same names and
			// mostly the same sizes but other numbers
			if pre := siblingText(j.G); pre != "" && pre != j.Text {
				c.W.RunGocc(j.Name, []byte(pre), run.GoccOpts{Flags: j.Flags})
				c.Add("generations_into_a_directory_holding_a_sibling_generation", 1)
			}
		}
		j.Res = c.W.RunGocc(j.Name, []byte(j.Text), run.GoccOpts{Flags: j.Flags, Ext: j.Ext})
		switch {
		case j.Res.TimedOut:
			j.Dropped = "gocc wall-clock watchdog fired"
		case j.Res.Budget:
			j.Dropped = "gocc step budget exceeded (C09 judges termination)"
		case j.Res.Hook96:
			j.Dropped = "C18 in-situ invariant fired"
		case j.Res.Exit != 0:
			j.Dropped = fmt.Sprintf("gocc exit %d", j.Res.Exit)
		}
		if j.Dropped == "" {
			if !keepParser {
				os.RemoveAll(filepath.Join(c.W.Dir, j.Name, "parser"))
				os.RemoveAll(filepath.Join(c.W.Dir, j.Name, "errors"))
			}
			j.Info = c.W.Register(j.Name)
		}
	})
}

// siblingText renders g with its token declarations in reverse order and the alternatives of
// every nonterminal in reverse order (the start symbol stays the head of the first block).
func siblingText(g *gram.Grammar) string {
	s := g.Clone()
	var idx []int
	for i, d := range s.Lex {
		if d.Kind == gram.DTok {
			idx = append(idx, i)
		}
	}
	for a, b := 0, len(idx)-1; a < b; a, b = a+1, b-1 {
		s.Lex[idx[a]], s.Lex[idx[b]] = s.Lex[idx[b]], s.Lex[idx[a]]
	}
	for _, d := range s.NTs {
		for a, b := 0, len(d.Alts)-1; a < b; a, b = a+1, b-1 {
			d.Alts[a], d.Alts[b] = d.Alts[b], d.Alts[a]
		}
	}
	return s.Render(nil)
}

var pkgPathRe = regexp.MustCompile(`(?m)^(?:# )?` + regexp.QuoteMeta(run.ModPath) + `/(?:ad/ad_)?(g[0-9a-z_]+)`)
var filePathRe = regexp.MustCompile(`(?m)^(?:ad/ad_)?(g[0-9a-z_]+)/`)

// BuildDriver builds the batch driver; grammars whose generated packages do not compile
// are dropped (with the compiler output as reason) and the build is retried.
func (c *Ctx) BuildDriver(jobs []*GenJob, name string, race bool) (string, error) {
	for attempt := 0; attempt < 6; attempt++ {
		bin, out, err := c.W.BuildDriver(name, race)
		if err == nil {
			return bin, nil
		}
		bad := map[string]bool{}
		for _, m := range pkgPathRe.FindAllStringSubmatch(out, -1) {
			bad[m[1]] = true
		}
		for _, m := range filePathRe.FindAllStringSubmatch(out, -1) {
			bad[m[1]] = true
		}
		if len(bad) == 0 {
			return "", fmt.Errorf("driver build failed: %v\n%s", err, trunc(out, 3000))
		}
		for _, j := range jobs {
			if bad[j.Name] && j.Dropped == "" {
				j.Dropped = "generated code does not compile: " + trunc(grepLines(out, j.Name), 600)
				c.W.Unregister(j.Name)
			}
		}
	}
	return "", fmt.Errorf("driver build failed repeatedly")
}

func grepLines(s, needle string) string {
	var out []string
	for _, l := range strings.Split(s, "\n") {
		if strings.Contains(l, needle) {
			out = append(out, l)
		}
	}
	return strings.Join(out, "\n")
}

func trunc(s string, n int) string {
	if len(s) > n {
		return s[:n] + "..."
	}
	return s
}

// driver protocol mirrors templates/h.go.txt

type DTok struct {
	Ty   string `json:"ty"`
	Tn   int    `json:"tn"`
	Lit  []byte `json:"lit"`
	Off  int    `json:"off"`
	Ln   int    `json:"ln"`
	Col  int    `json:"col"`
	NilL bool   `json:"nil_lit,omitempty"`
	Ps   string `json:"ps,omitempty"`
}

type DFeed struct {
	Toks   []string `json:"toks,omitempty"`
	Lits   []string `json:"lits,omitempty"`
	Src    []byte   `json:"src,omitempty"`
	UseSrc bool     `json:"use_src,omitempty"`
	Fail   int      `json:"fail"`
	Render bool     `json:"render,omitempty"`
	Rot    int      `json:"rot,omitempty"`
	File   string   `json:"file,omitempty"`
}

type DPResult struct {
	Log    string   `json:"log"`
	End    string   `json:"end"`
	Val    string   `json:"val,omitempty"`
	ETok   string   `json:"etok,omitempty"`
	EType  string   `json:"etype,omitempty"`
	ELit   []byte   `json:"elit,omitempty"`
	EPos   [3]int   `json:"epos,omitempty"`
	Exp    []string `json:"exp,omitempty"`
	ExpAfter []string `json:"exp_after,omitempty"`
	Custom int      `json:"custom,omitempty"`
	Msg    string   `json:"msg,omitempty"`
	Types  []string `json:"types,omitempty"`
	Text   string   `json:"text,omitempty"`
	LitSum string   `json:"lit_sum,omitempty"`
}

type DCase struct {
	ID         int      `json:"id"`
	G          string   `json:"g"`
	Op         string   `json:"op"`
	Src        []byte   `json:"src,omitempty"`
	Max        int      `json:"max,omitempty"`
	K          int      `json:"k,omitempty"`
	Feed       *DFeed   `json:"feed,omitempty"`
	Items      []*DFeed `json:"items,omitempty"`
	Names      []string `json:"names,omitempty"`
	ViaFile    bool     `json:"via_file,omitempty"`
	Goroutines int      `json:"goroutines,omitempty"`
	Repeat     int      `json:"repeat,omitempty"`
	Seed       int64    `json:"seed,omitempty"`
	Expect     []DPResult `json:"expect,omitempty"`
}

type DResult struct {
	ID         int        `json:"id"`
	Err        string     `json:"err,omitempty"`
	Toks       []DTok     `json:"toks,omitempty"`
	Before     []DTok     `json:"before,omitempty"`
	P          *DPResult  `json:"p,omitempty"`
	Ps         []DPResult `json:"ps,omitempty"`
	Ids        []string   `json:"ids,omitempty"`
	Types      []int      `json:"types,omitempty"`
	IdTypes    []int      `json:"id_types,omitempty"`
	Text       string     `json:"text,omitempty"`
	Calls      int        `json:"calls,omitempty"`
	Mismatches []string   `json:"mismatches,omitempty"`
	MaxOverlap int        `json:"max_overlap,omitempty"`
	Hang       bool       `json:"hang,omitempty"`
}

// RunCases sends cases to the driver and returns results indexed like cases. When the
// driver's CPU watchdog stops it at a case that does not return, that case gets a Hang
// result and the remaining cases are run by a fresh driver process.
func (c *Ctx) RunCases(bin string, cases []*DCase, workers int, env []string) ([]*DResult, error) {
	for i, cs := range cases {
		cs.ID = i
	}
	results := make([]*DResult, len(cases))
	pending := cases
	for round := 0; len(pending) > 0; round++ {
		if round > 25 {
			return nil, fmt.Errorf("driver was stopped by its CPU watchdog more than 25 times")
		}
		arr := make([]interface{}, len(pending))
		for i, cs := range pending {
			arr[i] = cs
		}
		// the driver stops hanging cases by CPU time itself; the wall-clock limit only guards
		// against a driver that blocks without using the CPU, and must not fire on a loaded machine
		wall := 30 * time.Minute
		if c.Thorough() {
			wall = 150 * time.Minute
		}
		stderr, timedOut, err := c.W.RunDriver(bin, arr, workers, env, wall, func(line []byte) error {
			r := new(DResult)
			if err := json.Unmarshal(line, r); err != nil {
				return err
			}
			if r.ID >= 0 && r.ID < len(results) {
				results[r.ID] = r
			}
			return nil
		})
		if timedOut {
			return nil, fmt.Errorf("driver watchdog fired (inconclusive)")
		}
		if err != nil {
			return nil, fmt.Errorf("%v: %s", err, trunc(stderr, 2000))
		}
		var next []*DCase
		for _, cs := range pending {
			if results[cs.ID] == nil {
				next = append(next, cs)
			}
		}
		if len(next) == len(pending) {
			return nil, fmt.Errorf("driver returned no result for case %d: %s", next[0].ID, trunc(stderr, 500))
		}
		pending = next
	}
	return results, nil
}
