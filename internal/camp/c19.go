package camp

import (
	"fmt"
	"math/rand"
	"os"
	"regexp"
	"strconv"
	"strings"
	"sync"
	"unicode/utf8"

	"github.com/goccmack/gocc/verifx/internal/gram"
	"github.com/goccmack/gocc/verifx/internal/model"
	"github.com/goccmack/gocc/verifx/internal/run"
)

func init() {
	register(&Campaign{ID: "C19", NeedsWorkspace: true, Run: runC19, Replay: replayC19})
}

var proseWords = []string{"The", "grammar", "of", "`Expr`", "is", "défini", "así:", "λ-terms", "中文", "1.", "*", "#", "##", "Title", "-", "item", "`x : y ;`", "<<", ">>", "'a'", "\"s\"", "|", ";", "\t", "e.g.", "(see", "below)", "`", "~~~", "😀"}

func prose(r *rand.Rand) string {
	var sb strings.Builder
	if r.Intn(12) == 0 {
		// a soft-wrapped paragraph: one line far longer than any reader's default buffer
		n := []int{4090, 4097, 5000, 9000, 70000}[r.Intn(5)]
		for sb.Len() < n {
			w := proseWords[r.Intn(len(proseWords))]
			if strings.Contains(w, "`") || w == "\t" {
				w = "word"
			}
			sb.WriteString(w + " ")
		}
		sb.WriteString("\n")
	}
	for ln := r.Intn(4); ln > 0; ln-- {
		for w := r.Intn(7); w > 0; w-- {
			sb.WriteString(proseWords[r.Intn(len(proseWords))])
			sb.WriteString(" ")
		}
		if r.Intn(5) == 0 {
			sb.WriteString("\r\n")
		} else {
			sb.WriteString("\n")
		}
	}
	s := sb.String()
	for strings.Contains(s, "``") {
		s = strings.ReplaceAll(s, "``", "` `")
	}
	return s
}

// fencedText is the property's own definition: the concatenation of the contents of the ``` fenced blocks.
func fencedText(md string) string {
	var sb strings.Builder
	in := false
	for {
		i := strings.Index(md, "```")
		if i < 0 {
			if in {
				sb.WriteString(md)
			}
			return sb.String()
		}
		if in {
			sb.WriteString(md[:i])
		}
		in = !in
		md = md[i+3:]
	}
}

type mdDoc struct {
	md string
	// position (1-based line, rune column) of every token, by token index
	line, col []int
}

// buildMd lays the tokens out into 1..6 fenced blocks (fences on their own lines) separated by prose.
func buildMd(r *rand.Rand, toks []gram.FTok) mdDoc {
	var lines [][]int
	for i := 0; i < len(toks); {
		n := 1 + r.Intn(5)
		var l []int
		for k := 0; k < n && i < len(toks); k++ {
			l = append(l, i)
			i++
		}
		lines = append(lines, l)
	}
	nb := 1 + r.Intn(6)
	cuts := map[int]bool{}
	for k := 1; k < nb; k++ {
		cuts[r.Intn(len(lines)+1)] = true
	}
	doc := mdDoc{line: make([]int, len(toks)), col: make([]int, len(toks))}
	var sb strings.Builder
	curLine, curCol := 1, 1
	write := func(s string) {
		sb.WriteString(s)
		for _, ch := range s {
			if ch == '\n' {
				curLine++
				curCol = 1
			} else {
				curCol++
			}
		}
	}
	nl := func() string {
		if r.Intn(6) == 0 {
			return "\r\n"
		}
		return "\n"
	}
	// group the lines into blocks at the cut points
	var blocks [][][]int
	var cur [][]int
	for li, l := range lines {
		if cuts[li] && len(cur) > 0 {
			blocks = append(blocks, cur)
			cur = nil
		}
		cur = append(cur, l)
	}
	if len(cur) > 0 {
		blocks = append(blocks, cur)
	}
	proseWordsInline := func() string {
		var sb2 strings.Builder
		for w := r.Intn(5); w > 0; w-- {
			word := proseWords[r.Intn(len(proseWords))]
			if strings.Contains(word, "`") || word == "\t" {
				word = "é—x"
			}
			sb2.WriteString(word)
			sb2.WriteString(" ")
		}
		return sb2.String()
	}
	writeLine := func(l []int) {
		for k, ti := range l {
			if k > 0 {
				write(" ")
			}
			doc.line[ti], doc.col[ti] = curLine, curCol
			write(toks[ti].Text)
		}
	}
	write(prose(r))
	for _, blk := range blocks {
		if r.Intn(3) == 0 {
			// inline fences: prose, the opening fence, code and the closing fence share lines
			write(proseWordsInline())
			if r.Intn(2) == 0 {
				write([]string{"(", "é", "see:", "\""}[r.Intn(4)]) // prose glued to the opening fence
			}
			write("``` ")
			for li, l := range blk {
				if li > 0 {
					write(nl())
				}
				writeLine(l)
			}
			if r.Intn(2) == 0 {
				write("```") // the last token glued to the closing fence
			} else {
				write(" ```")
			}
			if r.Intn(2) == 0 {
				write([]string{")", ",", ".", "é", ");", "'"}[r.Intn(6)]) // prose glued to the closing fence
			}
			write(" " + proseWordsInline())
			write(nl())
		} else {
			write("```" + nl())
			for _, l := range blk {
				if r.Intn(3) == 0 {
					write(strings.Repeat(" ", r.Intn(4)))
				}
				if r.Intn(6) == 0 {
					write("\t")
				}
				writeLine(l)
				write(nl())
			}
			write("```" + nl())
		}
		write(prose(r))
		if r.Intn(8) == 0 { // an empty block
			write("```" + nl() + "```" + nl())
			write(prose(r))
		}
	}
	s := sb.String()
	switch r.Intn(6) {
	case 0: // file ends right after the closing fence, no newline
		s = strings.TrimRight(s, "\r\n ")
		for !strings.HasSuffix(s, "```") && strings.Contains(s, "```") {
			s = s[:len(s)-1]
		}
	}
	doc.md = s
	return doc
}

var specCache *model.MSpec
var specErr error
var specMu sync.Mutex

func specOnce() (*model.MSpec, error) {
	specMu.Lock()
	defer specMu.Unlock()
	if specCache == nil && specErr == nil {
		specCache, specErr = model.LoadMSpec(run.RepoDir)
	}
	return specCache, specErr
}

// runePos is the scanner's own position rule: line = 1 + newlines before the rune, column = 1 + runes
// since the last newline before it.
func runePos(text string, byteOff int) (int, int) {
	line, col := 1, 1
	for i, ch := range text {
		if i >= byteOff {
			break
		}
		if ch == '\n' {
			line++
			col = 1
		} else {
			col++
		}
	}
	return line, col
}

// lastRunePos: where the front end reports an error at end of file (the position of the last character read).
func lastRunePos(text string) (int, int) {
	if text == "" {
		return 1, 0
	}
	_, size := utf8.DecodeLastRuneInString(text)
	return runePos(text, len(text)-size)
}

var posRe = regexp.MustCompile(`@ (\d+):(\d+)`)

func runC19(c *Ctx) error {
	n := c.Pick(100, 2000)
	c.Rule = "grammars laid out in 1-6 bare ``` fenced blocks (fences on their own lines, or inline on a line shared with prose) between random prose (inline back-quotes, non-ASCII, CRLF, tabs, empty blocks, file ending right after a fence); (a) x.md versus the concatenated fenced text as x.bnf, same directory and package path: generated .go files must be byte-identical; (b) the same .md with one stray token injected anywhere (so that M-SPEC finds the file unacceptable): the position in the diagnostic of the .md run must be the .md position of the very token (or end of file) that the run on the extracted text complains about; one evaluation = one pair or one diagnostic; non-trivial = document with at least two blocks or prose before the first block; distinct by .md text"
	c.Assumptions = []string{"fenced text is extracted by the harness's own 10-line reader of the property's definition", "only valid UTF-8 documents (md.go converts through []rune)"}
	if err := twinModules(c); err != nil {
		return err
	}
	type unit struct {
		g      *gram.Grammar
		seed   int64
		inject bool
	}
	units := make([]unit, 2*n)
	for i := range units {
		units[i] = unit{richGrammar(c.Rng), c.Rng.Int63(), i >= n}
	}
	run.Parallel(len(units), func(i int) {
		u := units[i]
		mdUnit(c, u.g, u.seed, u.inject, fmt.Sprintf("g%05d", i), i%97 == 0)
	})
	return nil
}

func mdUnit(c *Ctx, g *gram.Grammar, seed int64, inject bool, name string, sample bool) {
	r := rand.New(rand.NewSource(seed))
	toks := g.Tokens(nil)
	w := &Witness{Kind: "c19", Grammar: g, Ints: []int64{seed}}
	if inject {
		w.Kind = "c19-diag"
		// a stray token anywhere in the grammar; M-SPEC tells which token is the first one that makes
		// the sequence unacceptable (canonical LR(1) tables detect the error exactly there)
		spec, err := specOnce()
		if err != nil {
			c.Inconclusive("M-SPEC unavailable: " + err.Error())
			return
		}
		at := -1
		var stray gram.FTok
		for try := 0; try < 20; try++ {
			pos := r.Intn(len(toks) + 1)
			st := []gram.FTok{{Text: ")", Type: ")"}, {Text: ";", Type: ";"}, {Text: "|", Type: "|"}, {Text: "'x'", Type: "char_lit"}, {Text: "]", Type: "]"}, {Text: ":", Type: ":"}, {Text: "Zq9", Type: "prodId"}, {Text: "-", Type: "-"}}[r.Intn(8)]
			cand := append(append(append([]gram.FTok(nil), toks[:pos]...), st), toks[pos:]...)
			ids := make([]int, 0, len(cand))
			ok := true
			for _, t := range cand {
				id, known := spec.CFG.TermID(model.SpecTermName(t.Type))
				if !known {
					ok = false
					break
				}
				ids = append(ids, id)
			}
			if !ok {
				continue
			}
			er := spec.Earley.Run(ids)
			if er.Accepted || er.FirstBad >= len(cand) {
				continue // still well-formed, or only wrong at end of file
			}
			toks, at, stray = cand, er.FirstBad, st
			break
		}
		if at < 0 {
			return
		}
		doc := buildMd(r, toks)
		bnf := fencedText(doc.md)
		res := c.W.RunGocc(name, []byte(doc.md), run.GoccOpts{Flags: []string{"-a"}, Ext: ".md", WorkSub: "ma"})
		ref := c.W.RunGocc(name, []byte(bnf), run.GoccOpts{Flags: []string{"-a"}, WorkSub: "mb"})
		defer os.RemoveAll(res.OutDir)
		defer os.RemoveAll(ref.OutDir)
		c.Eval(1)
		for _, x := range []run.GoccResult{res, ref} {
			if x.TimedOut || x.Budget || x.Hook96 || x.CPUKill {
				c.Inconclusive(name + ": gocc run could not be judged")
				return
			}
		}
		w.Input = []byte(doc.md)
		if res.Exit == 0 || ref.Exit == 0 {
			if res.Exit != ref.Exit {
				w.Note = fmt.Sprintf("exit status %d on the .md file, %d on its fenced text", res.Exit, ref.Exit)
				c.Violation(w)
			}
			return // C14 judges acceptance of ill-formed files
		}
		mRef := posRe.FindStringSubmatch(ref.Stdout)
		m := posRe.FindStringSubmatch(res.Stdout)
		if mRef == nil || m == nil {
			if (mRef == nil) != (m == nil) {
				w.Note = "one of the two runs reports a position, the other does not: " + trunc(res.Stdout, 150) + " / " + trunc(ref.Stdout, 150)
				c.Violation(w)
			}
			return
		}
		// which token does the diagnostic of the plain run point at? its position in the .md file is the expectation
		want := ""
		bnfOff := 0
		if l, cc := lastRunePos(bnf); strings.Contains(ref.Stdout, "\u241a(") && fmt.Sprintf("%d:%d", l, cc) == mRef[1]+":"+mRef[2] {
			// the offending token is the end of the file (a one-character last token has the same
			// position: the token named by the diagnostic decides)
			ml, mc := lastRunePos(doc.md)
			want = fmt.Sprintf("%d:%d", ml, mc)
		}
		for ti, t := range toks {
			if want != "" {
				break
			}
			k := strings.Index(bnf[bnfOff:], t.Text)
			if k < 0 {
				break
			}
			bnfOff += k
			l, cc := runePos(bnf, bnfOff)
			if fmt.Sprintf("%d:%d", l, cc) == mRef[1]+":"+mRef[2] {
				want = fmt.Sprintf("%d:%d", doc.line[ti], doc.col[ti])
				break
			}
			bnfOff += len(t.Text)
		}
		if want == "" {
			if l, cc := lastRunePos(bnf); fmt.Sprintf("%d:%d", l, cc) == mRef[1]+":"+mRef[2] {
				// reported at end of file: the .md run reports the end of the .md file
				ml, mc := lastRunePos(doc.md)
				want = fmt.Sprintf("%d:%d", ml, mc)
			}
		}
		if want == "" {
			c.Inconclusive(name + ": the plain run's diagnostic position could not be mapped to a token")
			return
		}
		c.Nontrivial(doc.md)
		if sample {
			c.Sample(map[string]interface{}{"md": doc.md, "injected_token": stray.Text, "first_unacceptable_token_index": at, "expected_position": want, "stdout_md": trunc(res.Stdout, 300), "stdout_bnf": trunc(ref.Stdout, 300)})
		}
		if got := m[1] + ":" + m[2]; got != want {
			w.Expected = want
			w.Observed = trunc(res.Stdout, 300)
			w.Note = fmt.Sprintf("diagnostic on the .md file reports %s; the text the plain run complains about (%s in the fenced text, after inserting a stray %q) is at %s in the .md file", got, mRef[1]+":"+mRef[2], stray.Text, want)
			c.Violation(w)
		}
		return
	}
	doc := buildMd(r, toks)
	if !utf8.ValidString(doc.md) {
		return
	}
	bnf := fencedText(doc.md)
	// the name only has to end in .md: dots, dashes and upper case elsewhere in it do not matter
	base := name + []string{"", ".v2", ".bnf", "-x.y", ".MD.notes"}[r.Intn(5)]
	ra := c.W.RunGocc(name, []byte(doc.md), run.GoccOpts{Flags: []string{"-a"}, Ext: ".md", WorkSub: "ma", SrcBase: base})
	rb := c.W.RunGocc(name, []byte(bnf), run.GoccOpts{Flags: []string{"-a"}, WorkSub: "mb"})
	defer os.RemoveAll(ra.OutDir)
	defer os.RemoveAll(rb.OutDir)
	c.Eval(1)
	for _, x := range []run.GoccResult{ra, rb} {
		if x.TimedOut || x.Budget || x.Hook96 || x.CPUKill {
			c.Inconclusive(name + ": gocc run could not be judged")
			return
		}
	}
	if strings.Count(doc.md, "```") >= 4 || !strings.HasPrefix(doc.md, "```") {
		c.Nontrivial(doc.md)
	}
	oa, ob := observe(ra), observe(rb)
	if sample {
		c.Sample(map[string]interface{}{"md": doc.md, "extracted_bnf": bnf, "files": oa.Files})
	}
	if d := oa.diff(ob); d != "" {
		w.Input = []byte(doc.md)
		w.Expected = ob
		w.Observed = oa
		w.Note = "x.md and its fenced text as x.bnf generate different output: " + d + "; md run said: " + trunc(ra.Stdout+ra.Stderr, 200)
		c.Violation(w)
	}
}

func replayC19(c *Ctx, w *Witness) error {
	if w.Grammar == nil || len(w.Ints) == 0 {
		return fmt.Errorf("witness without grammar IR / seed")
	}
	if err := twinModules(c); err != nil {
		return err
	}
	mdUnit(c, w.Grammar, w.Ints[0], w.Kind == "c19-diag", "g_replay_"+w.Key()[:8], false)
	return nil
}

var _ = strconv.Itoa
