package camp

import (
	"bytes"
	"encoding/json"
	"fmt"
	"math/rand"
	"strings"

	"github.com/goccmack/gocc/verifx/internal/gram"
	"github.com/goccmack/gocc/verifx/internal/model"
)

func init() {
	register(&Campaign{ID: "C16", NeedsWorkspace: true, Run: runC16, Replay: replayC16})
}

type histRef struct {
	job   *SynJob
	items []HistItem
}

func feedOf(j *SynJob, h HistItem) *DFeed {
	return &DFeed{Toks: h.Toks, Src: h.Src, UseSrc: h.UseSrc, Fail: h.Fail, Render: h.Render}
}

func sameP(a, b *DPResult) bool {
	x, _ := json.Marshal(a)
	y, _ := json.Marshal(b)
	return string(x) == string(y)
}

// srcOf renders a token-name sequence as source text for the simple lexical part.
func srcOf(names []string, r *rand.Rand) []byte {
	var sb strings.Builder
	for i, n := range names {
		if i > 0 {
			sb.WriteString([]string{" ", "\n", "  ", "\t"}[r.Intn(4)])
		}
		sb.WriteString(n)
	}
	return []byte(sb.String())
}

func runC16(c *Ctx) error {
	nG := c.Pick(20, 200)
	nH := c.Pick(100, 300)
	c.Rule = "parsers: histories of 2-6 consecutive Parse calls on one Parser object (inputs drawn from valid, failing, recovering and action-error cases, fed by token name or through the generated lexer) - every call's complete observation (event log, result, error token/type/literal/position, expected list, custom error) must equal that of a fresh parser on the same input; lexers: scan k tokens of a multi-line source, Reset, scan everything - tokens and positions must equal a fresh lexer's; non-trivial = history whose earlier calls include at least one failing or recovering parse / reset after at least one token; distinct by (grammar, history)"
	c.Assumptions = []string{"a fresh object's behaviour is the oracle (C02-C08 judge that behaviour itself)"}
	rng := c.Rng
	clean := genSynJobs(rng, nG/2, "g", synFilter{class: func(k model.LRClass) bool { return k == model.ClassClean }, nonEmpty: true, actionMode: 0, flags: flagsZipAlternate, simpleLex: true,
		noStrLits: func(i int) bool { return i%3 == 0 }, family: func(i int) string {
			if i%5 == 0 {
				return "wide"
			}
			return ""
		}})
	errs := genSynJobs(rng, nG-len(clean), "h", synFilter{class: func(k model.LRClass) bool { return k != model.ClassAcceptReduce }, withErrors: true, nonEmpty: true, actionMode: 1, flags: func(i int) []string { return []string{"-a"} }, simpleLex: true,
		family: func(i int) string { return []string{"errdeep", "", "errorder", "", "errdeep", ""}[i%6] }})
	jobs := append(clean, errs...)
	inRng := rand.New(rand.NewSource(c.Seed*53 + 13))
	var hists []*histRef
	for _, j := range jobs {
		pool := model.InputPool(inRng, j.CFG, 120, 3)
		pool = append(pool, model.LongSentences(inRng, j.CFG, 3, 110)...)
		pool = append(pool, model.DeepSentences(inRng, j.LR, 2, 110)...)
		for h := 0; h < nH; h++ {
			n := 2 + inRng.Intn(5)
			hr := &histRef{job: j}
			for k := 0; k < n; k++ {
				in := pool[inRng.Intn(len(pool))]
				if k > 0 && inRng.Intn(3) == 0 {
					// the same input again (or an earlier one): the same error state is reached twice on one object
					prev := hr.items[inRng.Intn(len(hr.items))]
					if !prev.UseSrc {
						if ids, ok := j.IDs(prev.Toks); ok {
							in = ids
						}
					}
				} else if inRng.Intn(2) == 0 {
					// prefer inputs that fail or recover: they leave most behind in the object
					for try := 0; try < 6; try++ {
						cand := pool[inRng.Intn(len(pool))]
						if m := j.LR.Parse(cand, model.ParseOpts{FailAt: -1}); !m.Accepted || m.ErrorShifts > 0 {
							in = cand
							break
						}
					}
				}
				it := HistItem{Toks: j.Names(in), Fail: -1}
				if inRng.Intn(5) == 0 {
					it.Fail = inRng.Intn(4)
				}
				it.Render = inRng.Intn(4) > 0
				if inRng.Intn(4) == 0 {
					it.UseSrc = true
					it.Src = srcOf(it.Toks, inRng)
					it.Toks = nil
				}
				hr.items = append(hr.items, it)
			}
			hists = append(hists, hr)
		}
	}
	// systematic two-call histories for the grammars with error alternatives: every "poison" input
	// (the reference shifts 'error' and then gives up, so recovery states are on the stack when Parse
	// returns) followed by every "probe" input (an error where nothing on a fresh stack can recover)
	for _, j := range errs {
		var poison, probe [][]int
		for _, in := range model.InputPool(inRng, j.CFG, 1500, 2) {
			m := j.LR.Parse(in, model.ParseOpts{FailAt: -1})
			if m.Accepted || m.StepsExceeded {
				continue
			}
			if m.ErrorShifts > 0 {
				if len(poison) < 8 {
					poison = append(poison, in)
				}
			} else if len(probe) < 8 {
				probe = append(probe, in)
			}
		}
		c.Add("systematic_poison_inputs", len(poison))
		c.Add("systematic_probe_inputs", len(probe))
		for _, x := range poison {
			for _, y := range probe {
				hists = append(hists, &histRef{job: j, items: []HistItem{{Toks: j.Names(x), Fail: -1, Render: true}, {Toks: j.Names(y), Fail: -1, Render: true}}})
			}
		}
	}
	if err := runHistories(c, jobs, hists); err != nil {
		return err
	}
	return runResets(c, jobs, inRng, c.Pick(40, 200))
}

func runHistories(c *Ctx, jobs []*SynJob, hists []*histRef) error {
	gj := genJobsOf(jobs)
	c.GenerateAll(gj, true)
	bin, err := c.BuildDriver(gj, "c16drv", false)
	if err != nil {
		return err
	}
	var cases []*DCase
	type slot struct {
		h     *histRef
		sess  int
		fresh []int
	}
	var slots []*slot
	for _, h := range hists {
		if h.job.Dropped != "" {
			continue
		}
		s := &slot{h: h}
		var feeds []*DFeed
		for _, it := range h.items {
			feeds = append(feeds, feedOf(h.job, it))
		}
		s.sess = len(cases)
		cases = append(cases, &DCase{G: h.job.Name, Op: "session", Items: feeds})
		for _, f := range feeds {
			s.fresh = append(s.fresh, len(cases))
			cases = append(cases, &DCase{G: h.job.Name, Op: "parse", Feed: f})
		}
		slots = append(slots, s)
	}
	if len(cases) == 0 {
		return fmt.Errorf("no history could be built")
	}
	results, err := c.RunCases(bin, cases, 1, nil)
	if err != nil {
		return err
	}
	for si, s := range slots {
		sess := results[s.sess]
		c.Eval(len(s.fresh))
		w := &Witness{Kind: "history", Grammar: s.h.job.G, Flags: s.h.job.Flags, History: s.h.items}
		if sess.Err != "" || len(sess.Ps) != len(s.fresh) {
			w.Note = "session failed: " + sess.Err
			c.Violation(w)
			continue
		}
		dirty := false
		for k := range s.fresh {
			fr := results[s.fresh[k]]
			if fr.P == nil {
				w.Note = "fresh parse failed: " + fr.Err
				c.Violation(w)
				break
			}
			if k > 0 && dirty {
				c.Nontrivial(fmt.Sprintf("%s/%d/%d", s.h.job.Name, si, k))
			}
			if !sameP(&sess.Ps[k], fr.P) {
				w.Expected = fr.P
				w.Observed = sess.Ps[k]
				w.Note = fmt.Sprintf("call %d of %d on a reused parser differs from a fresh parser on the same input", k+1, len(s.fresh))
				c.Violation(w)
				break
			}
			if fr.P.End != "ret" || strings.Contains(fr.P.Log, "E(") {
				dirty = true
				c.Add("calls_failing_or_recovering", 1)
			}
		}
		if si%499 == 0 {
			c.Sample(map[string]interface{}{"grammar": s.h.job.G.Render(nil), "history": s.h.items, "observed": sess.Ps})
		}
	}
	c.Set("histories", len(slots))
	return nil
}

func runResets(c *Ctx, jobs []*SynJob, r *rand.Rand, perGrammar int) error {
	// the driver of runHistories is still registered; reuse its grammars' lexers
	var cases []*DCase
	type ref struct {
		job *SynJob
		src []byte
		k   int
	}
	var refs []ref
	for _, j := range jobs {
		if j.Dropped != "" || j.Info == nil || !j.Info.HasLexer {
			continue
		}
		pool := model.InputPool(r, j.CFG, 40, 2)
		for n := 0; n < perGrammar; n++ {
			names := j.Names(pool[r.Intn(len(pool))])
			names = append(names, j.Names(pool[r.Intn(len(pool))])...)
			src := srcOf(names, r)
			if r.Intn(3) == 0 {
				src = append(src, []string{"\n", " ?", "\t", "\n\n#"}[r.Intn(4)]...)
			}
			k := 0
			if len(names) > 0 {
				k = r.Intn(len(names) + 4) // up to a few calls past the end of the input
			}
			// a third of the lexers reads its text from a file (NewLexerFile), some of these files
			// start with a byte-order mark or contain CR LF line ends
			viaFile := n%3 == 0
			if viaFile && r.Intn(2) == 0 {
				src = append([]byte("\xef\xbb\xbf"), src...)
			}
			if viaFile && r.Intn(3) == 0 {
				src = bytes.ReplaceAll(src, []byte("\n"), []byte("\r\n"))
			}
			refs = append(refs, ref{j, src, k})
			cases = append(cases, &DCase{G: j.Name, Op: "lexreset", Src: src, K: k, ViaFile: viaFile}, &DCase{G: j.Name, Op: "lex", Src: src, ViaFile: viaFile})
		}
	}
	if len(cases) == 0 {
		return nil
	}
	bin := c.W.Dir + "/bin/c16drv"
	results, err := c.RunCases(bin, cases, 1, nil)
	if err != nil {
		return err
	}
	for i, rf := range refs {
		a, b := results[2*i], results[2*i+1]
		c.Eval(1)
		if rf.k > 0 {
			c.Nontrivial(fmt.Sprintf("reset/%s/%d", rf.job.Name, i))
		}
		x, _ := json.Marshal(a.Toks)
		y, _ := json.Marshal(b.Toks)
		if a.Err != "" || b.Err != "" || string(x) != string(y) {
			c.Violation(&Witness{Kind: "reset", Grammar: rf.job.G, Flags: rf.job.Flags, Input: rf.src, Ints: []int64{int64(rf.k)},
				Expected: fmtDToks(b.Toks), Observed: fmtDToks(a.Toks), Note: fmt.Sprintf("after scanning %d tokens and Reset the lexer does not behave like a fresh lexer (tokens or positions differ) %s%s", rf.k, a.Err, b.Err)})
		}
	}
	c.Set("lexer_resets", len(refs))
	return nil
}

func replayC16(c *Ctx, w *Witness) error {
	if w.Grammar == nil {
		return fmt.Errorf("witness without grammar IR")
	}
	j, err := NewSynJob("g_replay_"+w.Key()[:8], w.Grammar.Clone(), w.Flags)
	if err != nil {
		return err
	}
	if w.Kind == "reset" {
		gj := []*GenJob{j.GenJob}
		c.GenerateAll(gj, true)
		bin, err := c.BuildDriver(gj, "c16drv", false)
		if err != nil {
			return err
		}
		k := 0
		if len(w.Ints) > 0 {
			k = int(w.Ints[0])
		}
		results, err := c.RunCases(bin, []*DCase{{G: j.Name, Op: "lexreset", Src: w.Input, K: k}, {G: j.Name, Op: "lex", Src: w.Input}}, 1, nil)
		if err != nil {
			return err
		}
		x, _ := json.Marshal(results[0].Toks)
		y, _ := json.Marshal(results[1].Toks)
		if string(x) != string(y) {
			c.Violation(&Witness{Kind: "reset", Grammar: w.Grammar, Flags: w.Flags, Input: w.Input, Ints: w.Ints,
				Expected: fmtDToks(results[1].Toks), Observed: fmtDToks(results[0].Toks), Note: "after Reset the lexer does not behave like a fresh lexer"})
		}
		return nil
	}
	return runHistories(c, []*SynJob{j}, []*histRef{{job: j, items: w.History}})
}

var _ = gram.AddSimpleLex
