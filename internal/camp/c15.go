package camp

import (
	"fmt"

	"github.com/goccmack/gocc/verifx/internal/inp"
	"github.com/goccmack/gocc/verifx/internal/run"
)

func init() {
	register(&Campaign{ID: "C15", NeedsWorkspace: true, Run: runC15, Replay: replayC15})
}

func c15Witness(v inp.Violation) *Witness {
	return &Witness{Kind: v.Kind, Toks: v.Toks, Expected: v.Expected, Observed: v.Observed, Note: v.Note}
}

func runC15(c *Ctx) error {
	c.Rule = "the shipped front-end tables executed by the shipped Parse loop (reduce functions replaced by recording stubs) on synthetic token sequences: exhaustively all sequences of up to 4 (quick) / 5 (thorough) tokens over the 21-token front-end alphabet, plus random sentences of spec/gocc2.ebnf and their 1-2 edit mutants; acceptance must equal M-SPEC (Earley) membership and, for accepted inputs, the (head, body) sequence read from the table's own String/Head/NumSymbols fields must equal the reverse rightmost derivation by M-LR1 over the spec; non-trivial = accepted sentence (derivation compared); distinct by sequence"
	c.Assumptions = []string{"spec/gocc2.ebnf is read by the harness's own reader; \"error\" and \"empty\" are plain literal terminals", "semantic checks of the AST builders are out of scope here (they belong to C14)"}
	r, err := runInproc(c, "inproc-c15", c.Tier, fmt.Sprint(c.Seed), run.RepoDir)
	if err != nil {
		return err
	}
	fold(c, r, "", c15Witness)
	return nil
}

func replayC15(c *Ctx, w *Witness) error {
	args := append([]string{"replay", run.RepoDir}, w.Toks...)
	r, err := runInproc(c, "inproc-c15", args...)
	if err != nil {
		return err
	}
	fold(c, r, "replay_", c15Witness)
	return nil
}
