package camp

import (
	"fmt"
	"os"
	"path/filepath"
	"regexp"
	"strconv"
	"strings"

	"github.com/goccmack/gocc/verifx/internal/gram"
	"github.com/goccmack/gocc/verifx/internal/inp"
)

func init() {
	register(&Campaign{ID: "C18", NeedsWorkspace: true, Run: runC18, Replay: replayC18})
}

func c18Witness(v inp.Violation) *Witness {
	return &Witness{Kind: v.Kind, Ints: v.Ints, Strs: v.Strs, Expected: v.Expected, Observed: v.Observed, Note: v.Note}
}

var caseRe = regexp.MustCompile(`case (?:r == (\d+)|(\d+) <= r && r <= (\d+)):`)

// transTabClasses parses the case ranges of every state function of a generated transitiontable.go.
func transTabClasses(path string) ([][][2]int64, error) {
	b, err := os.ReadFile(path)
	if err != nil {
		return nil, err
	}
	var states [][][2]int64
	parts := strings.Split(string(b), "func(r rune) int {")
	for _, p := range parts[1:] {
		var cl [][2]int64
		for _, m := range caseRe.FindAllStringSubmatch(p, -1) {
			if m[1] != "" {
				v, _ := strconv.ParseInt(m[1], 10, 64)
				cl = append(cl, [2]int64{v, v})
			} else {
				a, _ := strconv.ParseInt(m[2], 10, 64)
				z, _ := strconv.ParseInt(m[3], 10, 64)
				cl = append(cl, [2]int64{a, z})
			}
		}
		states = append(states, cl)
	}
	return states, nil
}

func runC18(c *Ctx) error {
	c.Rule = "three observation points: (1) the real DisjunctRangeSet driven in process: every sequence of up to 3 (quick) / 4 (thorough) intervals over 6 / 7 consecutive points at both ends of the rune range, exhaustively, plus random sequences of up to 12 intervals over mixed magnitudes; (2) the Classes hook inside every gocc run of this campaign (every lexer state of random lexical grammars); (3) the case ranges of every state function of the generated transitiontable.go parsed back; oracle: sorted, disjoint, non-empty, union = union of added intervals, every added interval a union of classes; non-trivial = sequence with at least two intervals / lexer state with at least two classes; distinct by sequence"
	c.Assumptions = []string{"the oracle is re-implemented in the probe and (independently) in the hook", "exhaustive only within the stated bounds"}
	r, err := runInproc(c, "inproc-c18", c.Tier, fmt.Sprint(c.Seed))
	if err != nil {
		return err
	}
	fold(c, r, "inproc_", c18Witness)
	// (2)+(3): real gocc runs on random lexical grammars
	n := c.Pick(40, 400)
	var jobs []*GenJob
	for i := 0; i < n; i++ {
		o := gram.DefaultLexGenOpts()
		o.StrLits = 0
		jobs = append(jobs, &GenJob{Name: fmt.Sprintf("g%04d", i), G: gram.GenLexGrammar(c.Rng, o)})
	}
	c.GenerateAll(jobs, false)
	states, multi := 0, 0
	for _, j := range jobs {
		c.Eval(1)
		if j.Res.Hook96 {
			c.Violation(&Witness{Kind: "hook", Grammar: j.G, Observed: trunc(j.Res.Stderr, 1000), Note: "the in-situ rune-class invariant fired inside gocc: " + trunc(j.Res.Stderr, 300)})
			continue
		}
		if j.Dropped != "" {
			c.Inconclusive(j.Name + ": " + j.Dropped)
			continue
		}
		sts, err := transTabClasses(filepath.Join(c.W.Dir, j.Name, "lexer", "transitiontable.go"))
		if err != nil {
			c.Inconclusive(j.Name + ": " + err.Error())
			continue
		}
		for si, cl := range sts {
			states++
			if len(cl) >= 2 {
				multi++
				c.Nontrivial(fmt.Sprintf("%s/S%d", j.Name, si))
			}
			for k, x := range cl {
				why := ""
				if x[0] > x[1] {
					why = "empty case range"
				} else if k > 0 && cl[k-1][1] >= x[0] {
					why = "case ranges not sorted / not disjoint"
				}
				if why != "" {
					c.Violation(&Witness{Kind: "transtab", Grammar: j.G, Observed: cl, Note: fmt.Sprintf("state %d of generated transitiontable.go: %s at case %d", si, why, k)})
					break
				}
			}
		}
	}
	hs := c.W.HookStats()
	c.Set("gocc_runs", hs.Runs)
	c.Set("lexer_states_checked_by_hook", int(hs.ClassesCalls))
	c.Set("classes_checked_by_hook", int(hs.ClassesTotal))
	c.Set("max_classes_in_one_state", int(hs.ClassesMax))
	c.Set("generated_state_functions_parsed", states)
	c.Set("generated_state_functions_with_2_or_more_cases", multi)
	c.Exhaustive = false
	return nil
}

func replayC18(c *Ctx, w *Witness) error {
	switch w.Kind {
	case "drs":
		args := []string{"replay"}
		for _, v := range w.Ints {
			args = append(args, fmt.Sprint(v))
		}
		r, err := runInproc(c, "inproc-c18", args...)
		if err != nil {
			return err
		}
		fold(c, r, "replay_", func(v inp.Violation) *Witness { x := c18Witness(v); x.Ints = w.Ints; return x })
	default:
		if w.Grammar == nil {
			return fmt.Errorf("witness without grammar")
		}
		j := &GenJob{Name: "g_replay_" + w.Key()[:8], G: w.Grammar}
		c.GenerateAll([]*GenJob{j}, false)
		if j.Res.Hook96 {
			c.Violation(&Witness{Kind: w.Kind, Grammar: w.Grammar, Note: "the in-situ rune-class invariant fired inside gocc: " + trunc(j.Res.Stderr, 300)})
		}
	}
	return nil
}
