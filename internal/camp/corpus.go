package camp

import (
	"bytes"
	"encoding/json"
	"fmt"
	"math/rand"
	"os"
	"os/exec"
	"path/filepath"
	"sort"

	"github.com/goccmack/gocc/verifx/internal/gram"
	"github.com/goccmack/gocc/verifx/internal/model"
	"github.com/goccmack/gocc/verifx/internal/run"
)

type corpusEntry struct {
	Path    string        `json:"path"`
	Err     string        `json:"err,omitempty"`
	Grammar *gram.Grammar `json:"grammar,omitempty"`
}

var corpusCache []corpusEntry

// loadCorpus reads the repository's own grammars through gocc's real front end (in-process
// probe) into the harness IR. Action text is dropped; campaigns install recorder actions.
func loadCorpus(c *Ctx) []corpusEntry {
	if corpusCache != nil {
		return corpusCache
	}
	corpusCache = []corpusEntry{}
	var files []string
	for _, pat := range []string{"example/*/*.bnf", "internal/test/t1/*.bnf", "spec/*.ebnf"} {
		m, _ := filepath.Glob(filepath.Join(run.RepoDir, pat))
		files = append(files, m...)
	}
	sort.Strings(files)
	if len(files) == 0 {
		return corpusCache
	}
	bin, err := c.W.BuildInproc(VerifRoot, "inproc-corpus")
	if err != nil {
		c.Inconclusive("corpus stratum unavailable: " + err.Error())
		return corpusCache
	}
	cmd := exec.Command(bin, files...)
	var so, se bytes.Buffer
	cmd.Stdout, cmd.Stderr = &so, &se
	if err := cmd.Run(); err != nil {
		c.Inconclusive("corpus stratum unavailable: " + err.Error())
		return corpusCache
	}
	var es []corpusEntry
	if err := json.Unmarshal(so.Bytes(), &es); err != nil {
		c.Inconclusive("corpus stratum unavailable: " + err.Error())
		return corpusCache
	}
	for _, e := range es {
		if e.Grammar != nil && !usesReservedSpellings(e.Grammar) {
			corpusCache = append(corpusCache, e)
		}
	}
	c.Set("corpus_grammars_loaded", len(corpusCache))
	return corpusCache
}

// usesReservedSpellings: string literals or stray token ids spelled like gocc's pseudo
// symbols (spec/gocc2.ebnf itself does this) are outside every property's domain.
func usesReservedSpellings(g *gram.Grammar) bool {
	for _, s := range g.SyntaxTerminals() {
		switch s.Name {
		case "error", "empty", "INVALID", model.NameEOF:
			return true
		}
	}
	return false
}

// regdefsInDomain: every regular definition is either a character class (S1) or is
// non-nullable and used exactly once, as the first term of a top-level alternative (S2).
func regdefsInDomain(g *gram.Grammar) bool {
	defs := g.RegDefs()
	isS1 := map[string]bool{}
	var s1 func(name string, depth int) bool
	s1 = func(name string, depth int) bool {
		p, ok := defs[name]
		if !ok || depth > 20 {
			return false
		}
		for _, a := range p.Alts {
			if len(a.Terms) != 1 {
				return false
			}
			t := a.Terms[0]
			switch t.Kind {
			case gram.TLit, gram.TRange:
			case gram.TRef:
				if !s1(t.Ref, depth+1) {
					return false
				}
			default:
				return false
			}
		}
		return true
	}
	for n := range defs {
		isS1[n] = s1(n, 0)
	}
	uses := map[string]int{}
	badPos := map[string]bool{}
	var walk func(p *gram.Pattern, top bool, topKind gram.DefKind)
	walk = func(p *gram.Pattern, top bool, topKind gram.DefKind) {
		for _, a := range p.Alts {
			for ti, t := range a.Terms {
				if t.Kind == gram.TRef {
					uses[t.Ref]++
					if !(top && ti == 0 && topKind != gram.DReg) {
						badPos[t.Ref] = true
					}
				}
				if t.Sub != nil {
					walk(t.Sub, false, topKind)
				}
			}
		}
	}
	for _, d := range g.Lex {
		walk(d.Pat, true, d.Kind)
	}
	for n, p := range defs {
		if isS1[n] {
			continue
		}
		if gram.Nullable(p, defs) || uses[n] > 1 || badPos[n] {
			return false
		}
	}
	return true
}

// corpusLexJobs: corpus grammars whose lexical part lies inside the C01 domain.
func corpusLexJobs(c *Ctx, startIndex int) []*GenJob {
	var out []*GenJob
	skipped := 0
	for i, e := range loadCorpus(c) {
		if len(e.Grammar.Lex) == 0 {
			continue
		}
		if os.Getenv("VERIF_S1S2_ONLY") != "" && !regdefsInDomain(e.Grammar) {
			skipped++
			continue
		}
		g := e.Grammar.Clone()
		gram.AssignActions(rand.New(rand.NewSource(1)), g, 2)
		out = append(out, &GenJob{Name: fmt.Sprintf("k%04d", startIndex+i), G: g, Flags: []string{"-a"}})
	}
	c.Set("corpus_lexers_included", len(out))
	c.Set("corpus_lexers_outside_regdef_domain", skipped)
	return out
}

// corpusSynJobs: corpus grammars with a syntax part, recorder actions installed, filtered by class.
func corpusSynJobs(c *Ctx, rng *rand.Rand, prefix string, f synFilter) []*SynJob {
	var out []*SynJob
	for i, e := range loadCorpus(c) {
		if len(e.Grammar.NTs) == 0 {
			continue
		}
		g := e.Grammar.Clone()
		g.Lex = nil // parser campaigns feed tokens by name; corpus lexers are C01's subject
		mode := f.actionMode
		gram.AssignActions(rng, g, mode)
		var flags []string
		if f.flags != nil {
			flags = f.flags(i)
		}
		j, err := NewSynJob(fmt.Sprintf("%s%04d", prefix, i), g, flags)
		if err != nil {
			continue
		}
		if f.class != nil && !f.class(j.Class) {
			continue
		}
		if f.productive && !j.CFG.AllProductive() {
			continue
		}
		if f.withErrors != g.HasErrorAlts() {
			continue
		}
		if f.nonEmpty && !model.NewSentenceGen(j.CFG).HasSentence() {
			continue
		}
		out = append(out, j)
	}
	c.Add("corpus_grammars_included", len(out))
	return out
}
