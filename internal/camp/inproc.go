package camp

import (
	"bytes"
	"context"
	"encoding/json"
	"fmt"
	"os/exec"
	"time"

	"github.com/goccmack/gocc/verifx/internal/inp"
)

// runInproc builds an in-process probe against the tree under test and runs it.
func runInproc(c *Ctx, tool string, args ...string) (*inp.Result, error) {
	bin, err := c.W.BuildInproc(VerifRoot, tool)
	if err != nil {
		return nil, err
	}
	ctx, cancel := context.WithTimeout(context.Background(), 45*time.Minute)
	defer cancel()
	cmd := exec.CommandContext(ctx, bin, args...)
	cmd.Dir = c.W.Dir
	var so, se bytes.Buffer
	cmd.Stdout, cmd.Stderr = &so, &se
	if err := cmd.Run(); err != nil {
		if ctx.Err() != nil {
			return nil, fmt.Errorf("%s: wall-clock watchdog fired (inconclusive)", tool)
		}
		return nil, fmt.Errorf("%s failed: %v: %s", tool, err, trunc(se.String(), 2000))
	}
	var r inp.Result
	if err := json.Unmarshal(so.Bytes(), &r); err != nil {
		return nil, fmt.Errorf("%s: bad result: %v: %s", tool, err, trunc(so.String(), 500))
	}
	return &r, nil
}

// fold merges a probe's result into the evidence of the run.
func fold(c *Ctx, r *inp.Result, prefix string, toWitness func(v inp.Violation) *Witness) {
	c.Eval(r.Evaluations)
	// the probe counts distinct non-trivial cases itself
	c.mu.Lock()
	c.nontrivialN += r.Nontrivial
	c.mu.Unlock()
	for _, s := range r.Samples {
		c.Sample(s)
	}
	for k, v := range r.Extra {
		c.Set(prefix+k, v)
	}
	for _, w := range r.Inconclusive {
		c.Inconclusive(w)
	}
	for _, v := range r.Violations {
		c.Violation(toWitness(v))
	}
	if r.NumViol > len(r.Violations) {
		c.Set(prefix+"violations_total", r.NumViol)
	}
}
