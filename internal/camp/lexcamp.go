package camp

import (
	"bytes"
	"fmt"
	"math/rand"
	"os"
	"strconv"

	"github.com/goccmack/gocc/verifx/internal/gram"
	"github.com/goccmack/gocc/verifx/internal/model"
)

func init() {
	register(&Campaign{ID: "C01", NeedsWorkspace: true, Run: func(c *Ctx) error { return lexCampaign(c, "C01") }, Replay: lexReplay})
	register(&Campaign{ID: "C08", NeedsWorkspace: true, Run: func(c *Ctx) error { return lexCampaign(c, "C08") }, Replay: lexReplay})
}

// lexOpts is the generator domain for the lexer campaigns.
func lexOpts() gram.LexGenOpts {
	o := gram.DefaultLexGenOpts()
	// VERIF_S1S2_ONLY=1 restores the restricted regdef domain that was in force while finding F3 was open
	if os.Getenv("VERIF_S1S2_ONLY") != "" {
		o.FreeRegdefs = false
	}
	return o
}

type lexCaseRef struct {
	job   *GenJob
	m     *model.LexModel
	input []byte
}

func lexCampaign(c *Ctx, prop string) error {
	nGram := c.Pick(30, 400)
	nInputs := c.Pick(400, 1500)
	if prop == "C08" {
		nGram = c.Pick(30, 300)
	}
	c.Rule = "random lexical parts (tokens, ignored tokens, arbitrary acyclic regular definitions - nullable, nested, multiply used -, string literals) run through the real gocc, compiled, and scanned on hostile inputs (sampled lexemes, mutants, class-boundary runes, ill-formed UTF-8, tabs/CR/LF); a case is one (grammar, input); non-trivial = the model's token stream for it contains at least one token or INVALID lexeme; distinct by (grammar, input bytes)"
	c.Assumptions = []string{"M-LEX (position-set NFA simulation with macro-expanded regdefs) is a faithful reading of C01", "regular definitions are acyclic (a recursive definition has no macro expansion and is refused by gocc)", "utf8.DecodeRune semantics for ill-formed bytes"}
	var jobs []*GenJob
	for i := 0; i < nGram; i++ {
		g := gram.GenLexGrammar(c.Rng, lexOpts())
		jobs = append(jobs, &GenJob{Name: fmt.Sprintf("g%04d", i), G: g})
	}
	// bracket nesting far beyond what the random generator produces (and beyond the initial
	// capacity of the front end's parse stack)
	for k, d := range []int{12, 33, 70, 120}[:c.Pick(2, 4)] {
		jobs = append(jobs, &GenJob{Name: fmt.Sprintf("n%04d", k), G: gram.NestedLexGrammar(c.Rng, d+c.Rng.Intn(5))})
	}
	// constructs of more than 256 parts (alternatives, characters in a sequence)
	for k, n := range []int{300, 257, 520}[:c.Pick(1, 3)] {
		jobs = append(jobs, &GenJob{Name: fmt.Sprintf("u%04d", k), G: gram.HugeLexGrammar(c.Rng, n)})
	}
	jobs = append(jobs, corpusLexJobs(c, len(jobs))...)
	inputsRng := rand.New(rand.NewSource(c.Seed*7919 + 17))
	return runLexJobs(c, prop, jobs, func(j *GenJob) [][]byte { return gram.GenLexInputs(inputsRng, j.G, nInputs) })
}

// runLexJobs generates, compiles and scans; shared by the campaign and by replay.
func runLexJobs(c *Ctx, prop string, jobs []*GenJob, inputsFor func(j *GenJob) [][]byte) error {
	c.GenerateAll(jobs, false)
	rejected := 0
	for _, j := range jobs {
		if j.Dropped != "" {
			rejected++
			if j.Res.Exit == 0 || j.Res.Exit > 2 || j.Res.TimedOut {
				c.Inconclusive(j.Name + ": " + j.Dropped)
			}
		}
	}
	c.Set("grammars_generated", len(jobs))
	c.Set("grammars_rejected_by_gocc", rejected)
	bin, err := c.BuildDriver(jobs, "lexdrv", false)
	if err != nil {
		return err
	}
	var cases []*DCase
	var refs []lexCaseRef
	nViaFile := 0
	for _, j := range jobs {
		if j.Dropped != "" {
			if j.Res.Exit == 0 {
				c.Inconclusive(j.Name + ": " + j.Dropped)
			}
			continue
		}
		if j.Info == nil || !j.Info.HasLexer {
			continue
		}
		m, err := model.NewLexModel(j.G)
		if err != nil {
			c.Inconclusive(j.Name + ": model: " + err.Error())
			continue
		}
		for _, in := range inputsFor(j) {
			// every fifth input reaches the lexer through a file and NewLexerFile
			viaFile := len(cases)%5 == 4 && nViaFile < 6000
			if viaFile {
				nViaFile++
			}
			cases = append(cases, &DCase{G: j.Name, Op: "lex", Src: in, ViaFile: viaFile})
			refs = append(refs, lexCaseRef{j, m, in})
		}
	}
	if len(cases) == 0 {
		return fmt.Errorf("no lexer cases could be built")
	}
	results, err := c.RunCases(bin, cases, 1, nil)
	if err != nil {
		return err
	}
	dfaStates, pairs := 0, 0
	usedModels := map[*model.LexModel]bool{}
	kinds := map[string]int{}
	for i, r := range results {
		ref := refs[i]
		c.Eval(1)
		exp := ref.m.Lex(ref.input)
		usedModels[ref.m] = true
		nt := false
		for _, t := range exp.Toks {
			if t.Name != model.NameEOF {
				nt = true
			}
			if t.Name == model.NameINVALID {
				kinds["inputs_with_INVALID"]++
				break
			}
		}
		if len(exp.Ignored) > 0 {
			kinds["inputs_with_ignored_text"]++
		}
		if !validUTF8(ref.input) {
			kinds["inputs_ill_formed_utf8"]++
		}
		if nt {
			c.Nontrivial(ref.job.Name + "/" + string(ref.input))
		}
		if i%997 == 0 {
			c.Sample(map[string]interface{}{"grammar": ref.job.G.Render(nil), "input": strconv.QuoteToASCII(string(ref.input)), "model_tokens": fmtMToks(exp.Toks, ref.input), "observed": fmtDToks(r.Toks)})
		}
		var why string
		if prop == "C01" {
			why = checkC01(ref.input, exp, r)
		} else {
			why = checkC08(ref.input, exp, r)
		}
		if why != "" {
			c.Violation(&Witness{Kind: "lex", Grammar: ref.job.G, Flags: ref.job.Flags, Input: ref.input,
				Expected: fmtMToks(exp.Toks, ref.input), Observed: fmtDToks(r.Toks), Note: why})
		}
	}
	for m := range usedModels {
		dfaStates += m.NumDFAStates()
		pairs += len(m.StatePairs)
	}
	c.Set("grammars_scanned", len(usedModels))
	c.Set("inputs_read_through_NewLexerFile", nViaFile)
	c.Set("model_position_sets_reached", dfaStates)
	c.Set("model_state_rune_pairs_exercised", pairs)
	for k, v := range kinds {
		c.Set(k, v)
	}
	hs := c.W.HookStats()
	c.Set("gocc_runs_with_C18_hook", hs.Runs)
	c.Set("lexer_states_checked_by_C18_hook", int(hs.ClassesCalls))
	return nil
}

func validUTF8(b []byte) bool {
	for i := 0; i < len(b); {
		r, size := decodeRune(b[i:])
		if r == 0xfffd && size == 1 {
			return false
		}
		i += size
	}
	return true
}

func fmtMToks(ts []model.MTok, in []byte) []string {
	var out []string
	for _, t := range ts {
		out = append(out, fmt.Sprintf("%s %s @%d", t.Name, strconv.QuoteToASCII(string(in[t.Start:t.End])), t.Start))
	}
	return out
}

func fmtDToks(ts []DTok) []string {
	var out []string
	for _, t := range ts {
		out = append(out, fmt.Sprintf("%s %s @%d %d:%d", t.Ty, strconv.QuoteToASCII(string(t.Lit)), t.Off, t.Ln, t.Col))
	}
	return out
}

// checkC01: token types and literals, count, and sticky EOF.
func checkC01(in []byte, exp model.LexResult, r *DResult) string {
	if r.Err != "" {
		return "lexer failed: " + r.Err
	}
	n := len(exp.Toks) // includes the first EOF
	if len(r.Toks) < n {
		return fmt.Sprintf("lexer returned %d tokens, model %d", len(r.Toks), n)
	}
	for i, e := range exp.Toks {
		o := r.Toks[i]
		if o.Ty != e.Name {
			return fmt.Sprintf("token %d: type %s, model says %s", i, o.Ty, e.Name)
		}
		if e.Name != model.NameEOF && !bytes.Equal(o.Lit, in[e.Start:e.End]) {
			return fmt.Sprintf("token %d (%s): literal %q, model says %q", i, e.Name, o.Lit, in[e.Start:e.End])
		}
	}
	if len(r.Toks) != n+2 {
		return fmt.Sprintf("expected exactly two further EOF results after the first, got %d tokens in total for %d model tokens", len(r.Toks), n)
	}
	for i := n; i < len(r.Toks); i++ {
		if r.Toks[i].Ty != model.NameEOF {
			return fmt.Sprintf("call %d after end of input returned %s, not the end-of-input token", i, r.Toks[i].Ty)
		}
	}
	return ""
}

// checkC08: positions and tiling. When the observed (type, literal) stream agrees with the
// model the positions are judged against the model's lexeme boundaries; otherwise (a C01
// matter) only the self-consistency of what was returned is judged.
func checkC08(in []byte, exp model.LexResult, r *DResult) string {
	if r.Err != "" {
		return "lexer failed: " + r.Err
	}
	agree := checkC01(in, exp, r) == ""
	prevEnd := 0
	for i, o := range r.Toks {
		if o.Off < 0 || o.Off+len(o.Lit) > len(in) {
			return fmt.Sprintf("token %d: offset %d with literal length %d lies outside the input", i, o.Off, len(o.Lit))
		}
		if !bytes.Equal(o.Lit, in[o.Off:o.Off+len(o.Lit)]) {
			return fmt.Sprintf("token %d: literal %q is not the input at its offset %d (%q)", i, o.Lit, o.Off, in[o.Off:o.Off+len(o.Lit)])
		}
		if o.Off < prevEnd {
			return fmt.Sprintf("token %d: offset %d overlaps the previous lexeme ending at %d", i, o.Off, prevEnd)
		}
		ln, col := model.PosOf(in, o.Off)
		if o.Ln != ln || o.Col != col {
			return fmt.Sprintf("token %d (%s %q) at offset %d reports line %d column %d, the input gives line %d column %d", i, o.Ty, o.Lit, o.Off, o.Ln, o.Col, ln, col)
		}
		if agree && i < len(exp.Toks) {
			if o.Off != exp.Toks[i].Start {
				return fmt.Sprintf("token %d: offset %d, lexeme starts at %d", i, o.Off, exp.Toks[i].Start)
			}
		}
		if o.Ty == model.NameEOF {
			if o.Off != len(in) {
				return fmt.Sprintf("end-of-input token %d reports offset %d, input length is %d", i, o.Off, len(in))
			}
			if len(o.Lit) != 0 {
				return fmt.Sprintf("end-of-input token carries literal %q", o.Lit)
			}
		}
		prevEnd = o.Off + len(o.Lit)
	}
	if agree {
		// tiling: tokens and ignored lexemes of the model cover the input exactly
		type seg struct{ a, b int }
		var segs []seg
		for _, t := range exp.Toks {
			if t.Name != model.NameEOF {
				segs = append(segs, seg{t.Start, t.End})
			}
		}
		covered := make([]int, len(in))
		for _, s := range segs {
			for k := s.a; k < s.b; k++ {
				covered[k]++
			}
		}
		for _, s := range exp.Ignored {
			for k := s[0]; k < s[1]; k++ {
				covered[k]++
			}
		}
		for k, n := range covered {
			if n != 1 {
				return fmt.Sprintf("input byte %d is covered by %d lexemes", k, n)
			}
		}
	}
	return ""
}

func lexReplay(c *Ctx, w *Witness) error {
	if w.Grammar == nil {
		return fmt.Errorf("witness without grammar IR")
	}
	j := &GenJob{Name: "g_replay_" + w.Key()[:8], G: w.Grammar, Flags: w.Flags}
	prop := c.ID
	var firstErr error
	saved := c.violations
	err := runLexJobs(c, prop, []*GenJob{j}, func(*GenJob) [][]byte { return [][]byte{w.Input} })
	_ = saved
	if err != nil {
		firstErr = err
	}
	c.W.Unregister(j.Name)
	return firstErr
}
