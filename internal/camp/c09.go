package camp

import (
	"fmt"
	"math/rand"
	"os"
	"path/filepath"
	"regexp"
	"sort"
	"strings"
	"unicode/utf8"

	"github.com/goccmack/gocc/verifx/internal/gram"
	"github.com/goccmack/gocc/verifx/internal/run"
)

func init() {
	register(&Campaign{ID: "C09", NeedsWorkspace: true, Run: runC09, Replay: replayC09})
}

var hostileStr = []string{"<\r>", "a\rb", "n\x00l", "b\ufeffm", "%", "%s", "%d%v", "$1", "$T0", "*/", "//", "/*", `\`, `\n`, `\\`, `a\"b`, `"`, `'`, "`", "a b", " ", "é", "中文", "😀", "<", ">", "{{.}}", "{{", "}}", "a\nb", "\t", "x\x01y", "->", "&&", "%!s(", "\\u0041", "''", "?"}
var hostileTok = []string{"tök", "名前", "t_1", "x9", "ident", "λ", "a1_b2", "ñ"}
var hostileProd = []string{"Ünit", "Σ", "Prod_1", "X9", "Élément", "Z"}

// hostileInvalidBytes adds terminal spellings that are not valid UTF-8. Only C09 turns it on: the
// campaigns that feed tokens by name carry names through JSON, which cannot hold such bytes.
var hostileInvalidBytes = false

// hostileGrammar: a small well-formed grammar whose terminals, names and action text are
// spelled with characters that are dangerous when spliced into Go source.
func hostileGrammar(r *rand.Rand, withActions bool) *gram.Grammar {
	g := &gram.Grammar{}
	toks := append([]string(nil), hostileTok...)
	r.Shuffle(len(toks), func(i, j int) { toks[i], toks[j] = toks[j], toks[i] })
	toks = toks[:1+r.Intn(3)]
	for i, t := range toks {
		g.Lex = append(g.Lex, gram.LexDef{Kind: gram.DTok, Name: t, Pat: gram.StrPattern(fmt.Sprintf("@%d", i))})
	}
	g.Lex = append(g.Lex, gram.LexDef{Kind: gram.DIgn, Name: "!ws", Pat: gram.Seq(gram.Lit(' '))})
	prods := append([]string(nil), hostileProd...)
	r.Shuffle(len(prods), func(i, j int) { prods[i], prods[j] = prods[j], prods[i] })
	start, item := prods[0], prods[1]
	strs := append([]string(nil), hostileStr...)
	if hostileInvalidBytes {
		strs = append(strs, "\xff\xfe", "a\x80")
	}
	r.Shuffle(len(strs), func(i, j int) { strs[i], strs[j] = strs[j], strs[i] })
	strs = strs[:1+r.Intn(4)]
	x := &gram.NTDef{Head: item}
	for _, s := range strs {
		if strings.Contains(s, "`") && strings.ContainsAny(s, "\"\n\\") {
			continue // cannot be written as one gocc string literal
		}
		body := []gram.Sym{{Kind: gram.SStr, Name: s}}
		if r.Intn(2) == 0 {
			body = append(body, gram.Sym{Kind: gram.STok, Name: toks[r.Intn(len(toks))]})
		}
		x.Alts = append(x.Alts, gram.SAlt{Body: body})
	}
	for _, t := range toks {
		x.Alts = append(x.Alts, gram.SAlt{Body: []gram.Sym{{Kind: gram.STok, Name: t}, {Kind: gram.STok, Name: t}}})
	}
	g.NTs = []*gram.NTDef{
		{Head: start, Alts: []gram.SAlt{{Body: []gram.Sym{{Kind: gram.SNT, Name: item}}}, {Body: []gram.Sym{{Kind: gram.SNT, Name: start}, {Kind: gram.SNT, Name: item}}}}},
		x,
	}
	if r.Intn(2) == 0 {
		// the pseudo terminal 'empty' gets a number of its own, before the terminals first
		// mentioned after it
		g.NTs[0].Alts[0] = gram.SAlt{Empty: true}
	}
	if withActions {
		extras := []string{"\"`\"", "'>'", "\"$\"", "\"a>b\"", "\"%s\"", "`raw`", "\"*/\"", "1 > 0"}
		idx := 0
		for _, d := range g.NTs {
			for ai := range d.Alts {
				idx++
				if r.Intn(2) == 0 {
					continue
				}
				a := &d.Alts[ai]
				args := []gram.ArgRef{{Idx: 0}}
				a.Act = gram.Action{Kind: gram.ActRec, Args: args, UseCtx: true}
				txt := gram.RecText(idx, args)
				// splice an extra, harmless Go argument with hostile characters
				txt = strings.TrimSuffix(txt, ")") + ", " + extras[r.Intn(len(extras))] + ")"
				a.Act.Raw = txt
			}
		}
	}
	return g
}

// deepNullable: patterns aimed at the ε-move worklist (nested / nullable repetitions and options).
func deepNullable(r *rand.Rand) *gram.Grammar {
	o := gram.DefaultLexGenOpts()
	o.MaxDepth = 5
	o.AllowNullableTop = true
	o.StrLits = 0
	o.MaxToks = 3
	return gram.GenLexGrammar(r, o)
}

const mutBytes = "'\"`;:|-.[]{}()_!aZ \n\\/*\x00\xff"

type c09Unit struct {
	name   string
	g      *gram.Grammar // nil for raw text units
	text   string
	flags  []string
	kind   string
	opts   run.GoccOpts
	hasSyn bool
	res    run.GoccResult
	pkgDir string // directory (relative to the module) that holds the generated packages
	// regeneration: an earlier gocc run (other grammar, other flags) has already written into the
	// same output directory
	preText  string
	preFlags []string
	preExit  int
}

var flagPool = []string{"-a", "-zip", "-no_lexer", "-debug_lexer", "-debug_parser", "-v", "-u"}

func randFlags(r *rand.Rand) []string {
	var fl []string
	for _, f := range flagPool {
		if r.Intn(3) == 0 {
			fl = append(fl, f)
		}
	}
	return fl
}

func hasFlag(fl []string, f string) bool {
	for _, x := range fl {
		if x == f {
			return true
		}
	}
	return false
}

// strs is what a witness keeps of the unit besides text and flags.
func (u *c09Unit) strs() []string {
	s := []string{u.kind, u.opts.OutSub, u.opts.WorkSub}
	if u.preText != "" {
		s = append(s, u.preText, strings.Join(u.preFlags, " "))
	}
	return s
}

func runC09(c *Ctx) error {
	n := c.Pick(150, 2500)
	c.Rule = "real gocc runs under a step budget on every instrumented loop and a CPU rlimit: (a) well-formed grammars with hostile spellings (string literals with % $ quotes back-quotes backslashes comment markers template braces newlines non-ASCII; unicode token and production names; action text with back-quotes > $), (b) byte- and token-level mutants of well-formed grammars, (c) random flag combinations incl. -o sub/dir, -o ./x/, absolute -o, -p with the correct path, and runs started in a directory below the module root, (d) deeply nested nullable repetitions/options; termination = no budget/CPU kill; every run that exits 0 must have written token+util, lexer unless -no_lexer, parser+errors iff there is a syntax part, all non-empty, and everything that exited 0 is compiled in one batch go build (e: strace fault injection on the N-th write/openat/mkdirat), (f) regeneration into an output directory that already holds an earlier generation made with the debug flags / from another grammar; one evaluation = one gocc run; non-trivial = run that exited 0 and was compiled, or mutant run; distinct by (text, flags)"
	c.Assumptions = []string{"termination is judged as bounded progress on size-bounded inputs: no instrumented loop may exceed the step budget, no run may exceed 120 s of CPU; a wall-clock watchdog alone is inconclusive", "harness headers and actions are valid Go by construction, mutants carry no action text, so a compile error is gocc's"}
	if err := c.W.WriteSupport(); err != nil {
		return err
	}
	hostileInvalidBytes = true
	defer func() { hostileInvalidBytes = false }()
	r := c.Rng
	var units []*c09Unit
	add := func(kind string, g *gram.Grammar, text string, flags []string) *c09Unit {
		u := &c09Unit{name: fmt.Sprintf("g%05d", len(units)), g: g, text: text, flags: flags, kind: kind}
		units = append(units, u)
		return u
	}
	for len(units) < n {
		switch k := r.Intn(12); {
		case k == 11: // (f) regeneration into a directory that holds an earlier, larger generation
			pre := richGrammar(r)
			g := richGrammar(r)
			if r.Intn(2) == 0 {
				g = pre // the same grammar, first with the debug flags, then without
			}
			if len(pre.NTs) == 0 || len(g.NTs) == 0 {
				continue
			}
			u := add("regen", g, "", []string{"-a"})
			u.hasSyn = true
			u.preText = pre.Render(nil)
			u.preFlags = []string{"-a", "-debug_lexer", "-debug_parser"}
			if r.Intn(2) == 0 {
				u.preFlags = append(u.preFlags, "-v")
			}
			if r.Intn(3) == 0 {
				u.flags = append(u.flags, "-zip")
			}
		case k == 10 || k == 9: // (b') a well-formed file cut off at an arbitrary byte, preferably inside a token
			g := richGrammar(r)
			if r.Intn(2) == 0 {
				g = hostileGrammar(r, false)
			}
			text := g.Render(&gram.RenderOpts{R: r, RandLayout: r.Intn(2) == 0, NoTrailingN: true})
			cut := r.Intn(len(text) + 1)
			if r.Intn(2) == 0 {
				// cut right after an opening quote / comment / action marker
				var spots []int
				only := []string{"", "\"", "'", "`", "/*", "<<"}[r.Intn(6)] // one kind of opener, or any
				for i := 0; i < len(text); i++ {
					if only != "" {
						if strings.HasPrefix(text[i:], only) {
							spots = append(spots, i+len(only)+r.Intn(2))
						}
						continue
					}
					if strings.ContainsRune("\"'`", rune(text[i])) || strings.HasPrefix(text[i:], "/*") || strings.HasPrefix(text[i:], "//") {
						spots = append(spots, i+1+r.Intn(2))
					}
				}
				if len(spots) > 0 {
					cut = spots[r.Intn(len(spots))]
					if cut > len(text) {
						cut = len(text)
					}
				}
			}
			text = text[:cut]
			if strings.Contains(text, "<<") {
				continue
			}
			add("mutant", nil, text, []string{"-a"})
		case k < 3: // (a)
			withAct := r.Intn(2) == 0
			g := hostileGrammar(r, withAct)
			fl := []string{"-a"}
			if r.Intn(3) == 0 {
				fl = append(fl, randFlags(r)...)
			}
			u := add("hostile", g, "", fl)
			u.hasSyn = true
			if withAct {
				gram.SetHarnessHeader(g, run.ModPath, u.name)
			}
		case k < 6: // (b)
			g := richGrammar(r)
			base := g.Tokens(nil)
			var text string
			if r.Intn(2) == 0 {
				m := tokenMutant(r, base)
				text = gram.Join(m.toks, nil)
			} else {
				b := []byte(g.Render(nil))
				for e := 1 + r.Intn(3); e > 0 && len(b) > 0; e-- {
					i := r.Intn(len(b))
					switch r.Intn(3) {
					case 0:
						b = append(b[:i], b[i+1:]...)
					case 1:
						b = append(b[:i], append([]byte{mutBytes[r.Intn(len(mutBytes))]}, b[i:]...)...)
					case 2:
						b[i] = mutBytes[r.Intn(len(mutBytes))]
					}
				}
				text = string(b)
			}
			if strings.Contains(text, "<<") {
				continue
			}
			add("mutant", nil, text, []string{"-a"})
		case k < 8: // (c)
			g := richGrammar(r)
			u := add("flags", g, "", randFlags(r))
			u.hasSyn = len(g.NTs) > 0
			switch r.Intn(11) {
			case 7, 8: // gocc started in a directory below the module root (go.mod is in an ancestor), no -p
				u.opts.WorkSub = "sub_" + u.name
				if r.Intn(2) == 0 {
					u.opts.WorkSub = "deep_" + u.name + "/a/b"
				}
			case 0:
				u.opts.OutSub = u.name + "/sub/dir"
			case 1:
				u.opts.OutSub = "./" + u.name + "/"
			case 2:
				u.opts.OutSub = filepath.Join(c.W.Dir, u.name, "abs")
			case 3:
				u.opts.WorkSub = "p_" + u.name
				u.opts.NoOut = true
				u.flags = append(u.flags, "-p", run.ModPath+"/p_"+u.name)
			case 4: // absolute, not in clean form
				u.opts.OutSub = filepath.Join(c.W.Dir, u.name) + []string{"/", "//x", "/./y", "/z/"}[r.Intn(4)]
			case 5: // relative with redundant elements
				u.opts.OutSub = []string{u.name + "//d", u.name + "/./d/", "./" + u.name + "/../" + u.name + "/e"}[r.Intn(3)]
			case 6: // -p with a trailing slash (still the correct package)
				u.opts.WorkSub = "p_" + u.name
				u.opts.NoOut = true
				u.flags = append(u.flags, "-p", run.ModPath+"/p_"+u.name+"/")
			}
		default: // (d)
			add("nullable", deepNullable(r), "", nil)
		}
	}
	for _, u := range units {
		if u.g != nil {
			u.text = u.g.Render(nil)
		}
	}
	run.Parallel(len(units), func(i int) {
		u := units[i]
		o := u.opts
		if u.preText != "" {
			o.Flags = u.preFlags
			u.preExit = c.W.RunGocc(u.name, []byte(u.preText), o).Exit
		}
		o.Flags = u.flags
		u.res = c.W.RunGocc(u.name, []byte(u.text), o)
	})
	var compiled []*c09Unit
	maxSteps := map[string]int64{}
	for i, u := range units {
		c.Eval(1)
		c.Add("runs_"+u.kind, 1)
		w := &Witness{Kind: "c09", Text: u.text, Flags: u.flags, Strs: u.strs()}
		if i%257 == 0 {
			c.Sample(map[string]interface{}{"kind": u.kind, "text": trunc(u.text, 800), "flags": u.flags, "exit": u.res.Exit, "stdout": trunc(u.res.Stdout, 200)})
		}
		if u.kind == "mutant" {
			c.Nontrivial(u.text)
		}
		switch {
		case u.res.TimedOut:
			c.Inconclusive(u.name + ": wall-clock watchdog fired")
			continue
		case u.res.Budget:
			w.Note = "gocc exceeded the step budget of an instrumented loop (does not terminate within the bound): " + trunc(u.res.Stderr, 200)
			c.Violation(w)
			continue
		case u.res.CPUKill:
			w.Note = "gocc was killed by the CPU-time limit (120 s)"
			c.Violation(w)
			continue
		case u.res.Hook96:
			c.Inconclusive(u.name + ": C18 in-situ invariant fired (C18's subject)")
			continue
		}
		if u.res.Exit != 0 {
			os.RemoveAll(u.res.OutDir)
			if u.opts.WorkSub != "" {
				os.RemoveAll(filepath.Join(c.W.Dir, u.opts.WorkSub))
			}
			if u.kind == "hostile" || u.kind == "nullable" {
				// (regen units are random rich grammars: one whose start symbol derives itself is
				// refused with status 2 by design, which C04 judges)
				// a well-formed grammar must not be refused because of how it is spelled
				if !(hasFlag(u.flags, "-no_lexer") && hasFlag(u.flags, "-debug_lexer")) {
					w.Note = fmt.Sprintf("gocc exits %d on a well-formed grammar: %s", u.res.Exit, trunc(u.res.Stdout+u.res.Stderr, 300))
					c.Violation(w)
				}
			}
			continue
		}
		// exit 0: completeness
		c.Add("runs_exit_0", 1)
		dir := u.res.OutDir
		hasSyn := u.hasSyn
		if u.g == nil {
			// mutant: whether there is a syntax part is read off what gocc wrote
			_, e1 := os.Stat(filepath.Join(dir, "parser"))
			hasSyn = e1 == nil
		}
		want := []string{"token/token.go", "util/litconv.go", "util/rune.go"}
		if !hasFlag(u.flags, "-no_lexer") {
			want = append(want, "lexer/lexer.go", "lexer/acttab.go", "lexer/transitiontable.go")
		}
		if hasSyn {
			want = append(want, "parser/parser.go", "parser/actiontable.go", "parser/gototable.go", "parser/productionstable.go", "parser/action.go", "errors/errors.go")
		}
		missing := ""
		for _, f := range want {
			st, err := os.Stat(filepath.Join(dir, f))
			if err != nil {
				missing = f + " is missing"
				break
			}
			if st.Size() == 0 {
				missing = f + " is empty"
				break
			}
		}
		if missing != "" {
			w.Note = "gocc exits 0 but " + missing
			c.Violation(w)
			continue
		}
		if hasFlag(u.flags, "-no_lexer") {
			if _, err := os.Stat(filepath.Join(dir, "lexer")); err == nil {
				w.Note = "-no_lexer but a lexer directory was written"
				c.Violation(w)
				continue
			}
		}
		rel, _ := filepath.Rel(c.W.Dir, dir)
		u.pkgDir = rel
		compiled = append(compiled, u)
		c.Nontrivial(u.text + strings.Join(u.flags, " "))
	}
	hs := c.W.HookStats()
	for k, v := range hs.MaxSteps {
		maxSteps[k] = v
	}
	c.Set("max_steps_per_site", maxSteps)
	c.Set("step_budget", run.DefaultStepBudget)
	// batch compile of everything that exited 0
	if len(compiled) > 0 {
		bad := compileAll(c, compiled)
		for _, u := range compiled {
			if why, ok := bad[u.pkgDir]; ok {
				c.Violation(&Witness{Kind: "c09", Text: u.text, Flags: u.flags, Strs: u.strs(),
					Note: "gocc exits 0 but the generated packages do not compile: " + trunc(why, 500)})
			}
		}
		c.Set("outputs_compiled", len(compiled))
	}
	// (e) fault injection
	nf := c.Pick(1, 10)
	maxN := c.Pick(25, 400)
	for i := 0; i < nf; i++ {
		faultInjection(c, richGrammar(r), fmt.Sprintf("f%03d", i), maxN)
	}
	return nil
}

var compileErrRe = regexp.MustCompile(`(?m)^(?:# )?(?:` + regexp.QuoteMeta(run.ModPath) + `/)?((?:p_)?g[0-9a-z_]+)[/ \n]`)

// compileAll builds every generated package below the listed directories in one go build
// and maps compiler diagnostics back to the units.
func compileAll(c *Ctx, units []*c09Unit) map[string]string {
	var pats []string
	for _, u := range units {
		pats = append(pats, "./"+u.pkgDir+"/...")
	}
	bad := map[string]string{}
	out, err := c.W.GoBuild(pats...)
	if err == nil {
		return bad
	}
	// attribute each diagnostic line to the unit whose directory it names
	lines := strings.Split(out, "\n")
	attributed := false
	for _, u := range units {
		var mine []string
		for _, l := range lines {
			if strings.Contains(l, u.pkgDir+"/") || strings.HasSuffix(l, u.pkgDir) {
				mine = append(mine, l)
			}
		}
		if len(mine) > 0 {
			// confirm by building the unit alone (a diagnostic may merely mention an importer)
			o2, e2 := c.W.GoBuild("./" + u.pkgDir + "/...")
			if e2 != nil {
				bad[u.pkgDir] = o2
				attributed = true
			}
		}
	}
	if !attributed {
		c.Inconclusive("batch go build failed but no unit could be blamed: " + trunc(out, 500))
	}
	return bad
}

// faultInjection: fail the N-th write / openat / mkdirat of a gocc run for every N and
// require that a run which still exits 0 produced exactly the fault-free output.
func faultInjection(c *Ctx, g *gram.Grammar, name string, maxN int) {
	text := g.Render(nil)
	// every run gets its own directory that is a module of its own with the same module
	// path, so that all runs generate the same package paths and outputs are comparable
	sub := func(tag string) string {
		d := "fi_" + name + "_" + tag
		os.MkdirAll(filepath.Join(c.W.Dir, d), 0777)
		os.WriteFile(filepath.Join(c.W.Dir, d, "go.mod"), []byte("module "+run.ModPath+"\n\ngo 1.24\n"), 0666)
		return d
	}
	refSub := sub("ref")
	defer os.RemoveAll(filepath.Join(c.W.Dir, refSub))
	ref := c.W.RunGocc("gx", []byte(text), run.GoccOpts{Flags: []string{"-a"}, Env: []string{"GOMAXPROCS=1"}, WorkSub: refSub})
	if ref.Exit != 0 {
		return
	}
	want := hashTree(ref.OutDir, ".go")
	type probe struct {
		sys string
		n   int
	}
	var probes []probe
	for _, sys := range []string{"write", "openat", "mkdirat"} {
		for n := 1; n <= maxN; n++ {
			probes = append(probes, probe{sys, n})
		}
	}
	run.Parallel(len(probes), func(i int) {
		p := probes[i]
		nm := fmt.Sprintf("%s%d", p.sys, p.n)
		errno := "ENOSPC"
		if p.sys != "write" {
			errno = "EACCES"
		}
		ps := sub(nm)
		defer os.RemoveAll(filepath.Join(c.W.Dir, ps))
		res := c.W.RunGocc("gx", []byte(text), run.GoccOpts{Flags: []string{"-a"}, Env: []string{"GOMAXPROCS=1"}, WorkSub: ps,
			Wrapper: []string{"strace", "-f", "-qq", "-o", "/dev/null", "-e", "trace=" + p.sys, "-e", fmt.Sprintf("inject=%s:error=%s:when=%d", p.sys, errno, p.n)}})
		c.Eval(1)
		c.Add("fault_injection_runs", 1)
		if res.TimedOut {
			c.Inconclusive(name + nm + ": watchdog")
			return
		}
		if res.Exit != 0 {
			c.Add("fault_injection_runs_exit_nonzero", 1)
			c.Nontrivial(name + nm)
			return
		}
		got := hashTree(res.OutDir, ".go")
		if strings.Join(got, "\n") != strings.Join(want, "\n") {
			c.Nontrivial(name + nm)
			c.Violation(&Witness{Kind: "c09-fault", Grammar: g, Strs: []string{p.sys, fmt.Sprint(p.n)}, Expected: want, Observed: got,
				Note: fmt.Sprintf("gocc exits 0 although the %d-th %s failed and the output is incomplete or differs", p.n, p.sys)})
		}
	})
}

func replayC09(c *Ctx, w *Witness) error {
	if err := c.W.WriteSupport(); err != nil {
		return err
	}
	if w.Kind == "c09-fault" {
		if w.Grammar == nil || len(w.Strs) != 2 {
			return fmt.Errorf("bad witness")
		}
		n := 0
		fmt.Sscan(w.Strs[1], &n)
		faultInjection(c, w.Grammar, "f_replay_"+w.Key()[:6], n)
		return nil
	}
	u := &c09Unit{name: "g_replay_" + w.Key()[:8], text: w.SourceText(), flags: w.Flags, kind: "replay"}
	if len(w.Strs) >= 3 {
		u.kind = w.Strs[0]
		u.opts.OutSub, u.opts.WorkSub = w.Strs[1], w.Strs[2]
		if strings.HasPrefix(u.opts.WorkSub, "p_") {
			u.opts.NoOut = true
		}
	}
	o := u.opts
	if len(w.Strs) == 5 {
		o.Flags = strings.Fields(w.Strs[4])
		c.W.RunGocc(u.name, []byte(w.Strs[3]), o)
	}
	o.Flags = u.flags
	u.res = c.W.RunGocc(u.name, []byte(u.text), o)
	wit := &Witness{Kind: "c09", Text: w.SourceText(), Flags: w.Flags, Strs: w.Strs}
	switch {
	case u.res.Budget:
		wit.Note = "gocc exceeded the step budget of an instrumented loop"
		c.Violation(wit)
		return nil
	case u.res.CPUKill:
		wit.Note = "gocc was killed by the CPU-time limit"
		c.Violation(wit)
		return nil
	case u.res.TimedOut:
		return fmt.Errorf("watchdog")
	}
	if u.res.Exit != 0 {
		if u.kind == "hostile" || u.kind == "nullable" {
			wit.Note = fmt.Sprintf("gocc exits %d on a well-formed grammar", u.res.Exit)
			c.Violation(wit)
		}
		return nil
	}
	for _, f := range []string{"token/token.go", "util/litconv.go"} {
		st, err := os.Stat(filepath.Join(u.res.OutDir, f))
		if err != nil || st.Size() == 0 {
			wit.Note = "gocc exits 0 but " + f + " is missing or empty"
			c.Violation(wit)
			return nil
		}
	}
	rel, _ := filepath.Rel(c.W.Dir, u.res.OutDir)
	u.pkgDir = rel
	if bad := compileAll(c, []*c09Unit{u}); len(bad) > 0 {
		wit.Note = "gocc exits 0 but the generated packages do not compile: " + trunc(bad[u.pkgDir], 400)
		c.Violation(wit)
	}
	return nil
}

var _ = sort.Strings
var _ = utf8.RuneError
