package camp

import (
	"crypto/sha256"
	"encoding/hex"
	"fmt"
	"math/rand"
	"os"
	"path/filepath"
	"sort"
	"strings"

	"github.com/goccmack/gocc/verifx/internal/gram"
	"github.com/goccmack/gocc/verifx/internal/run"
)

func init() {
	register(&Campaign{ID: "C11", NeedsWorkspace: true, Run: runC11, Replay: replayC11})
}

// hashTree returns "relpath sha256" lines for every file with the given suffix below dir.
func hashTree(dir string, suffix string) []string {
	var out []string
	filepath.Walk(dir, func(p string, info os.FileInfo, err error) error {
		if err != nil || info.IsDir() || !strings.HasSuffix(p, suffix) {
			return nil
		}
		b, err := os.ReadFile(p)
		if err != nil {
			return nil
		}
		h := sha256.Sum256(b)
		rel, _ := filepath.Rel(dir, p)
		out = append(out, rel+" "+hex.EncodeToString(h[:]))
		return nil
	})
	sort.Strings(out)
	return out
}

// richGrammar: syntax part (possibly ambiguous / with error alternatives) plus a lexical part
// with extra tokens the syntax part never uses (they are numbered after the used ones, sorted).
func richGrammar(r *rand.Rand) *gram.Grammar { return richGrammarOf(r, "") }

// richGrammarOf: as richGrammar, with a fixed template family for the syntax part.
func richGrammarOf(r *rand.Rand, family string) *gram.Grammar {
	o := gram.SynGenOpts{Family: family}
	switch r.Intn(4) {
	case 0:
		o.Ambiguous = true
	case 1:
		o.WithErrors = true
	}
	g := gram.GenSyntax(r, o)
	gram.AssignActions(r, g, 2)
	gram.AddSimpleLex(g)
	lo := gram.DefaultLexGenOpts()
	lo.StrLits = 0
	lo.AsciiOnly = r.Intn(2) == 0
	extra := gram.GenLexGrammar(r, lo)
	used := map[string]bool{}
	for _, d := range g.Lex {
		used[d.Name] = true
	}
	for _, d := range extra.Lex {
		if !used[d.Name] {
			g.Lex = append(g.Lex, d)
		}
	}
	return g
}

type detObs struct {
	Exit     int      `json:"exit"`
	Conflict string   `json:"conflict_line"`
	Files    []string `json:"files"`
}

func observe(res run.GoccResult) detObs {
	o := detObs{Exit: res.Exit, Files: hashTree(res.OutDir, ".go")}
	for _, l := range strings.Split(res.Stdout, "\n") {
		if strings.Contains(l, "LR-1 conflicts") {
			o.Conflict = strings.TrimSpace(l)
		}
	}
	return o
}

func (a detObs) diff(b detObs) string {
	if a.Exit != b.Exit {
		return fmt.Sprintf("exit status %d vs %d", a.Exit, b.Exit)
	}
	if a.Conflict != b.Conflict {
		return fmt.Sprintf("conflict line %q vs %q", a.Conflict, b.Conflict)
	}
	if len(a.Files) != len(b.Files) {
		return fmt.Sprintf("%d generated files vs %d", len(a.Files), len(b.Files))
	}
	for i := range a.Files {
		if a.Files[i] != b.Files[i] {
			return "generated file differs: " + strings.Fields(a.Files[i])[0]
		}
	}
	return ""
}

func runC11(c *Ctx) error {
	nG := c.Pick(40, 400)
	K := c.Pick(5, 12)
	flagSets := [][]string{{}, {"-a"}}
	if c.Thorough() {
		flagSets = append(flagSets, []string{"-a", "-zip"}, []string{"-a", "-v"})
	}
	c.Rule = fmt.Sprintf("grammars rich in map-shaped data (many terminals, unused tokens, conflicts, string literals, error alternatives) generated %d times per flag set by fresh gocc processes (each draws fresh map-iteration seeds) with GOMAXPROCS cycling over 1, 2, 16, always into the same directory; sha256 of every generated .go file, exit status and conflict line must be equal; one evaluation = one gocc run; non-trivial = a (grammar, flag set) whose runs wrote at least 5 files; distinct by (grammar text, flags)", K)
	c.Assumptions = []string{"gocc starts no goroutines, so the schedule dimension reduces to per-process map-order draws and GOMAXPROCS", ".txt dumps of -v are recorded, not judged"}
	var gs []*gram.Grammar
	for i := 0; i < nG; i++ {
		// a quarter of the grammars are shapes whose FIRST / closure fixed points need several passes in
		// an order-sensitive way (the places where map iteration order could leak into the result)
		fam := ""
		switch i % 8 {
		case 0, 4:
			fam = "firstchain"
		case 2:
			fam = "nulllist"
		case 6:
			fam = "manyterms" // item sets of several hundred items
		}
		gs = append(gs, richGrammarOf(c.Rng, fam))
	}
	type unit struct {
		g     *gram.Grammar
		flags []string
		name  string
	}
	var units []unit
	for i, g := range gs {
		for f, fl := range flagSets {
			units = append(units, unit{g, fl, fmt.Sprintf("g%04df%d", i, f)})
		}
		if !c.Thorough() && i%3 == 0 {
			// the compressed tables and the verbose dumps are writers of their own: a third of
			// the grammars of the quick tier goes through them too
			units = append(units, unit{g, []string{"-a", "-zip"}, fmt.Sprintf("g%04df2", i)}, unit{g, []string{"-a", "-v"}, fmt.Sprintf("g%04df3", i)})
		}
	}
	run.Parallel(len(units), func(i int) {
		u := units[i]
		detUnit(c, u.g, u.flags, u.name, K, i%97 == 0, nil)
	})
	return nil
}

func detUnit(c *Ctx, g *gram.Grammar, flags []string, name string, K int, sample bool, keyInts []int64) {
	if keyInts == nil {
		keyInts = []int64{int64(K)}
	}
	text := g.Render(nil)
	procs := []string{"1", "2", "16"}
	var first detObs
	for k := 0; k < K; k++ {
		res := c.W.RunGocc(name, []byte(text), run.GoccOpts{Flags: flags, Env: []string{"GOMAXPROCS=" + procs[k%3]}})
		c.Eval(1)
		if res.TimedOut || res.Budget || res.Hook96 || res.CPUKill {
			c.Inconclusive(name + ": gocc run could not be judged")
			os.RemoveAll(res.OutDir)
			return
		}
		o := observe(res)
		os.RemoveAll(res.OutDir)
		if k == 0 {
			first = o
			if len(o.Files) >= 5 {
				c.Nontrivial(text + strings.Join(flags, " "))
			}
			if sample {
				c.Sample(map[string]interface{}{"grammar": text, "flags": flags, "runs": K, "first_run": o})
			}
			continue
		}
		if d := first.diff(o); d != "" {
			c.Violation(&Witness{Kind: "c11", Grammar: g, Flags: flags, Ints: keyInts, Expected: first, Observed: o,
				Note: fmt.Sprintf("run %d differs from run 1: %s", k+1, d)})
			return
		}
	}
}

func replayC11(c *Ctx, w *Witness) error {
	if w.Grammar == nil {
		return fmt.Errorf("witness without grammar IR")
	}
	K := 12
	if len(w.Ints) > 0 && w.Ints[0] > 0 {
		K = int(w.Ints[0]) * 3
	}
	detUnit(c, w.Grammar, w.Flags, "g_replay_"+w.Key()[:8], K, false, w.Ints)
	return nil
}
