package camp

import (
	"fmt"

	"github.com/goccmack/gocc/verifx/internal/gram"
	"github.com/goccmack/gocc/verifx/internal/model"
	"github.com/goccmack/gocc/verifx/internal/run"
)

func init() {
	register(&Campaign{ID: "C04", NeedsWorkspace: true, Run: runC04, Replay: replayC04})
}

func runC04(c *Ctx) error {
	n := c.Pick(240, 3000)
	c.Rule = "random, template and near-LR(1)-boundary grammars (LR(1)-but-not-LALR(1), reduce/reduce on one look-ahead, conflicts behind nullable prefixes, self-deriving start symbols, injected ambiguity, error alternatives), each run through the real gocc with and without -a; exit status and the 'LR-1 conflicts' line are judged against the M-LR1 classification; one evaluation = one gocc run; non-trivial = grammar in class conflicting or accept/reduce, or conflict-free with at least 6 LR(1) states; distinct by grammar text"
	c.Assumptions = []string{"M-LR1 is the canonical LR(1) automaton of the grammar with 'error' as an ordinary terminal", "the conflict count N is recorded, not judged"}
	var jobs []*SynJob
	boundary := 0
	for tries := 0; len(jobs) < n && tries < n*20; tries++ {
		o := gram.SynGenOpts{}
		switch c.Rng.Intn(10) {
		case 0, 1, 2, 3:
			// every boundary family in turn: none of them is left to chance in a short run
			c.Rng.Intn(len(gram.BoundaryFamilies))
			o.Family = gram.BoundaryFamilies[boundary%len(gram.BoundaryFamilies)]
			boundary++
		case 4, 5:
			o.Ambiguous = true
		case 6:
			o.WithErrors = true
		case 7:
			o.WithErrors, o.Ambiguous = true, true
		}
		g := gram.GenSyntax(c.Rng, o)
		gram.AssignActions(c.Rng, g, 2)
		j, err := NewSynJob(fmt.Sprintf("g%05d", len(jobs)), g, nil)
		if err != nil {
			continue
		}
		j.G.Header = ""
		jobs = append(jobs, j)
	}
	return judgeC04(c, jobs)
}

func judgeC04(c *Ctx, jobs []*SynJob) error {
	type res struct{ plain, auto run.GoccResult }
	results := make([]res, len(jobs))
	run.Parallel(len(jobs)*2, func(k int) {
		j := jobs[k/2]
		text := j.G.Render(nil)
		if k%2 == 0 {
			results[k/2].plain = c.W.RunGocc(j.Name+"p", []byte(text), run.GoccOpts{})
		} else {
			results[k/2].auto = c.W.RunGocc(j.Name+"a", []byte(text), run.GoccOpts{Flags: []string{"-a"}})
		}
	})
	classes := map[model.LRClass]int{}
	for i, j := range jobs {
		r := results[i]
		c.Eval(2)
		classes[j.Class]++
		if j.Class != model.ClassClean || j.LR.NumStates() >= 6 {
			c.Nontrivial(j.G.Render(nil))
		}
		if i%211 == 0 {
			c.Sample(map[string]interface{}{"grammar": j.G.Render(nil), "model_class": className(j.Class), "model_conflict_entries": len(j.Confl),
				"exit_without_a": r.plain.Exit, "exit_with_a": r.auto.Exit, "stdout_without_a": trunc(r.plain.Stdout, 200)})
		}
		bad := false
		for _, x := range []run.GoccResult{r.plain, r.auto} {
			if x.TimedOut || x.Budget || x.Hook96 || x.CPUKill {
				c.Inconclusive(fmt.Sprintf("%s: gocc run could not be judged (watchdog/budget/hook)", j.Name))
				bad = true
			}
		}
		if bad {
			continue
		}
		why := ""
		switch j.Class {
		case model.ClassClean:
			switch {
			case conflictLine(r.plain.Stdout) || conflictLine(r.auto.Stdout):
				why = "gocc announces LR(1) conflicts for a grammar whose canonical LR(1) automaton has none"
			case r.plain.Exit != 0:
				why = fmt.Sprintf("conflict-free grammar: gocc exits %d without -a", r.plain.Exit)
			case r.auto.Exit != 0:
				why = fmt.Sprintf("conflict-free grammar: gocc exits %d with -a", r.auto.Exit)
			}
		case model.ClassConflict:
			switch {
			case !conflictLine(r.plain.Stdout):
				why = "grammar has competing actions in its canonical LR(1) automaton but gocc (without -a) announces no conflicts"
			case !conflictLine(r.auto.Stdout):
				why = "grammar has competing actions but gocc -a announces no conflicts"
			case r.plain.Exit == 0:
				why = "conflicting grammar: gocc exits 0 without -a"
			case r.auto.Exit != 0:
				why = fmt.Sprintf("conflicting grammar: gocc -a exits %d", r.auto.Exit)
			}
		case model.ClassAcceptReduce:
			switch {
			case r.plain.Exit == 0:
				why = "accept/reduce conflict: gocc exits 0 without -a"
			case r.auto.Exit == 0:
				why = "accept/reduce conflict: gocc exits 0 with -a"
			}
		}
		if why != "" {
			c.Violation(&Witness{Kind: "c04", Grammar: j.G, Expected: map[string]interface{}{"model_class": className(j.Class), "conflict_entries": describeConflicts(j)},
				Observed: map[string]interface{}{"exit_without_a": r.plain.Exit, "exit_with_a": r.auto.Exit, "stdout_without_a": trunc(r.plain.Stdout, 400), "stdout_with_a": trunc(r.auto.Stdout, 400), "stderr": trunc(r.plain.Stderr, 400)}, Note: why})
		}
	}
	c.Set("grammars_conflict_free", classes[model.ClassClean])
	c.Set("grammars_conflicting", classes[model.ClassConflict])
	c.Set("grammars_accept_reduce", classes[model.ClassAcceptReduce])
	return nil
}

func className(k model.LRClass) string {
	switch k {
	case model.ClassClean:
		return "conflict-free"
	case model.ClassConflict:
		return "conflicting"
	}
	return "accept/reduce"
}

func describeConflicts(j *SynJob) []string {
	var out []string
	for i, ce := range j.Confl {
		if i >= 5 {
			break
		}
		out = append(out, fmt.Sprintf("state %d on %s: %v", ce.State, j.CFG.Terms[ce.Term], ce.Acts))
	}
	return out
}

func replayC04(c *Ctx, w *Witness) error {
	if w.Grammar == nil {
		return fmt.Errorf("witness without grammar IR")
	}
	j, err := NewSynJob("g_replay_"+w.Key()[:8], w.Grammar.Clone(), nil)
	if err != nil {
		return err
	}
	j.G.Header = ""
	return judgeC04(c, []*SynJob{j})
}
