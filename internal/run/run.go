// Package run builds the real gocc from /repo's working tree, runs it under limits,
// assembles scratch Go modules out of what it generated, builds and runs batch drivers.
package run

import (
	"bufio"
	"bytes"
	"context"
	"embed"
	"encoding/json"
	"fmt"
	"os"
	"os/exec"
	"path/filepath"
	"runtime"
	"strings"
	"sync"
	"syscall"
	"text/template"
	"time"
)

//go:embed templates/*.txt
var tmplFS embed.FS

const ModPath = "scratch.x/w"

// RepoDir is the tree gocc is built from: /repo's working tree. VERIF_REPO overrides it
// for the harness's own validation runs against scratch worktrees (seeded changes).
var RepoDir = func() string {
	if v := os.Getenv("VERIF_REPO"); v != "" {
		return v
	}
	return "/repo"
}()

// GoBin is the Go command used for every build (resolved by env.sh into $VGO).
func GoBin() string {
	if v := os.Getenv("VGO"); v != "" {
		return v
	}
	// run.sh exports VGO (env.sh); when the binary is started by hand fall back to the same search
	for _, c := range []string{"/root/go/pkg/mod/golang.org/toolchain@v0.0.1-go1.24.0.linux-amd64/bin/go"} {
		if st, err := os.Stat(c); err == nil && !st.IsDir() {
			return c
		}
	}
	for _, n := range []string{"go1.26", "go1.26.8"} {
		if p, err := exec.LookPath(n); err == nil {
			return p
		}
	}
	return "go"
}

func goEnv() []string {
	env := os.Environ()
	env = append(env, "GOFLAGS=-mod=mod", "GOPROXY=off", "GOTOOLCHAIN=local")
	if c := scratchCache(); c != "" {
		env = append(env, "GOCACHE="+c)
	}
	return env
}

// scratchCache is a Go build cache of its own for everything compiled from scratch modules
// (thousands of generated packages per thorough run). It lives outside /repo and /verif, is
// recreated on demand and is wiped when it grows beyond maxScratchCacheKB, so that repeated
// runs cannot fill the disk; the price of a wipe is one rebuild of the standard library.
func scratchCache() string {
	if v := os.Getenv("VERIF_GOCACHE"); v != "" {
		return v
	}
	base := os.Getenv("VERIF_SCRATCH")
	if base == "" {
		base = os.TempDir()
	}
	return filepath.Join(base, "vgocc-gocache")
}

const maxScratchCacheKB = 12 << 20 // 12 GB

func maintainScratchCache() {
	dir := scratchCache()
	os.MkdirAll(dir, 0777)
	lockScratchCache()
	cf := filepath.Join(dir, ".vgocc-runs")
	n := 0
	if b, err := os.ReadFile(cf); err == nil {
		fmt.Sscan(string(b), &n)
	}
	n++
	os.WriteFile(cf, []byte(fmt.Sprint(n)), 0666)
	if n%20 != 0 {
		return
	}
	out, err := exec.Command("du", "-sk", dir).Output()
	if err != nil {
		return
	}
	kb := 0
	fmt.Sscan(string(out), &kb)
	if kb > maxScratchCacheKB && cacheLock != nil {
		// wipe only when no other run is using the cache: every run holds a shared lock for its
		// lifetime, the wipe needs the exclusive one
		fd := int(cacheLock.Fd())
		syscall.Flock(fd, syscall.LOCK_UN)
		if syscall.Flock(fd, syscall.LOCK_EX|syscall.LOCK_NB) == nil {
			os.RemoveAll(dir)
			os.MkdirAll(dir, 0777)
		}
		syscall.Flock(fd, syscall.LOCK_SH)
	}
}

// goOutput runs a go command and retries it when the failure is the build cache losing entries
// under it (another process trimming or wiping the shared scratch cache): that says nothing
// about the code being built.
func goOutput(dir string, args ...string) ([]byte, error) {
	var out []byte
	var err error
	for try := 0; try < 4; try++ {
		cmd := exec.Command(GoBin(), args...)
		cmd.Dir = dir
		cmd.Env = goEnv()
		out, err = cmd.CombinedOutput()
		if err == nil || !(bytes.Contains(out, []byte("vgocc-gocache")) && bytes.Contains(out, []byte("no such file or directory"))) {
			return out, err
		}
		time.Sleep(time.Duration(5*(try+1)) * time.Second)
	}
	return out, err
}

var cacheLock *os.File

// lockScratchCache takes the shared lock that keeps concurrent runs from wiping the cache
// under this one.
func lockScratchCache() {
	if cacheLock != nil {
		return
	}
	f, err := os.OpenFile(scratchCache()+".lock", os.O_CREATE|os.O_RDWR, 0666)
	if err != nil {
		return
	}
	syscall.Flock(int(f.Fd()), syscall.LOCK_SH)
	cacheLock = f
}

// Workspace is one scratch directory (outside /repo and /verif), removed by Close.
type Workspace struct {
	Dir     string
	Gocc    string
	HookLog string
	mu      sync.Mutex
	grams   map[string]*GenInfo
}

type GenInfo struct {
	Name      string
	HasLexer  bool
	HasParser bool
}

// NewWorkspace creates the scratch module and builds gocc with the hooks enabled.
func NewWorkspace() (*Workspace, error) {
	base := os.Getenv("VERIF_SCRATCH")
	if base == "" {
		base = os.TempDir()
	}
	dir, err := os.MkdirTemp(base, "vgocc-")
	if err != nil {
		return nil, err
	}
	maintainScratchCache()
	w := &Workspace{Dir: dir, Gocc: filepath.Join(dir, "bin", "gocc"), HookLog: filepath.Join(dir, "hook.log"), grams: map[string]*GenInfo{}}
	if err := os.MkdirAll(filepath.Join(dir, "bin"), 0777); err != nil {
		return nil, err
	}
	if err := os.WriteFile(filepath.Join(dir, "go.mod"), []byte("module "+ModPath+"\n\ngo 1.24\n"), 0666); err != nil {
		return nil, err
	}
	if out, err := goOutput(RepoDir, "build", "-tags", "verif", "-o", w.Gocc, "."); err != nil {
		w.Close()
		return nil, fmt.Errorf("building gocc from %s failed: %v\n%s", RepoDir, err, out)
	}
	return w, nil
}

func (w *Workspace) Close() {
	if os.Getenv("VERIF_KEEP") != "" {
		fmt.Fprintln(os.Stderr, "keeping scratch", w.Dir)
		return
	}
	os.RemoveAll(w.Dir)
}

// GoccResult is what one gocc run looked like from outside.
type GoccResult struct {
	Name     string
	Exit     int
	Stdout   string
	Stderr   string
	TimedOut bool // wall-clock watchdog fired: inconclusive, never a violation
	CPUKill  bool // killed by the CPU-time rlimit
	Budget   bool // a step-counter hook fired (exit 97)
	Hook96   bool // the C18 in-situ invariant fired (exit 96)
	OutDir   string
	Wall     time.Duration
}

type GoccOpts struct {
	Flags      []string // flags other than -o
	Ext        string   // ".bnf" (default) or ".md"
	SrcBase    string   // base name of the source file (default: the run's name); the extension is appended
	OutSub     string   // output directory relative to the module root (default: Name)
	NoOut      bool     // do not pass -o at all (gocc writes into its working directory)
	WorkSub    string   // run gocc from this sub directory of the module (default: root)
	StepBudget int64
	CPUSeconds int
	Wall       time.Duration
	Env        []string
	Wrapper    []string // e.g. strace ... ; placed before the gocc binary
}

// RunGocc writes src as <Name>.<ext> in the module root and runs the real gocc on it.
func (w *Workspace) RunGocc(name string, src []byte, o GoccOpts) GoccResult {
	ext := o.Ext
	if ext == "" {
		ext = ".bnf"
	}
	workDir := w.Dir
	if o.WorkSub != "" {
		workDir = filepath.Join(w.Dir, o.WorkSub)
		os.MkdirAll(workDir, 0777)
	}
	srcBase := name
	if o.SrcBase != "" {
		srcBase = o.SrcBase
	}
	srcPath := filepath.Join(workDir, srcBase+ext)
	if err := os.WriteFile(srcPath, src, 0666); err != nil {
		return GoccResult{Name: name, Exit: -1, Stderr: err.Error()}
	}
	outSub := o.OutSub
	if outSub == "" {
		outSub = name
	}
	res := GoccResult{Name: name, OutDir: filepath.Join(workDir, outSub)}
	if filepath.IsAbs(outSub) {
		res.OutDir = outSub
	}
	if o.NoOut {
		res.OutDir = workDir
	}
	cpu := o.CPUSeconds
	if cpu == 0 {
		cpu = 120
	}
	wall := o.Wall
	if wall == 0 {
		wall = 300 * time.Second
	}
	args := []string{"--cpu=" + fmt.Sprint(cpu), "--as=8589934592"}
	args = append(args, o.Wrapper...)
	args = append(args, w.Gocc)
	if !o.NoOut {
		args = append(args, "-o", outSub)
	}
	args = append(args, o.Flags...)
	args = append(args, srcBase+ext)
	ctx, cancel := context.WithTimeout(context.Background(), wall)
	defer cancel()
	cmd := exec.CommandContext(ctx, "prlimit", args...)
	cmd.Dir = workDir
	budget := o.StepBudget
	if budget == 0 {
		budget = DefaultStepBudget
	}
	cmd.Env = append(os.Environ(), "VERIF_HOOK_LOG="+w.HookLog, fmt.Sprintf("VERIF_STEP_BUDGET=%d", budget))
	cmd.Env = append(cmd.Env, o.Env...)
	var so, se bytes.Buffer
	cmd.Stdout, cmd.Stderr = &so, &se
	t0 := time.Now()
	err := cmd.Run()
	res.Wall = time.Since(t0)
	res.Stdout, res.Stderr = so.String(), se.String()
	if ctx.Err() == context.DeadlineExceeded {
		res.TimedOut = true
		res.Exit = -2
		return res
	}
	if err != nil {
		if ee, ok := err.(*exec.ExitError); ok {
			res.Exit = ee.ExitCode()
			if ws, ok := ee.Sys().(syscall.WaitStatus); ok && ws.Signaled() {
				res.Exit = 128 + int(ws.Signal())
				if ws.Signal() == syscall.SIGXCPU || ws.Signal() == syscall.SIGKILL {
					res.CPUKill = true
				}
			}
		} else {
			res.Exit = -1
			res.Stderr += err.Error()
		}
	}
	res.Budget = res.Exit == 97
	res.Hook96 = res.Exit == 96
	return res
}

// DefaultStepBudget bounds every instrumented loop of gocc (see DESIGN.md C09).
var DefaultStepBudget int64 = 20000000

// Parallel runs f(i) for i in [0,n) on all cores.
func Parallel(n int, f func(i int)) {
	workers := runtime.NumCPU()
	if workers > n {
		workers = n
	}
	if workers < 1 {
		workers = 1
	}
	var wg sync.WaitGroup
	ch := make(chan int)
	for k := 0; k < workers; k++ {
		wg.Add(1)
		go func() {
			defer wg.Done()
			for i := range ch {
				f(i)
			}
		}()
	}
	for i := 0; i < n; i++ {
		ch <- i
	}
	close(ch)
	wg.Wait()
}

// Register notes that grammar <name> (generated into <Dir>/<name>) takes part in the next driver build.
func (w *Workspace) Register(name string) *GenInfo {
	gi := &GenInfo{Name: name}
	if st, err := os.Stat(filepath.Join(w.Dir, name, "lexer", "lexer.go")); err == nil && !st.IsDir() {
		gi.HasLexer = true
	}
	if st, err := os.Stat(filepath.Join(w.Dir, name, "parser", "parser.go")); err == nil && !st.IsDir() {
		gi.HasParser = true
	}
	w.mu.Lock()
	w.grams[name] = gi
	w.mu.Unlock()
	return gi
}

func (w *Workspace) Unregister(name string) {
	w.mu.Lock()
	delete(w.grams, name)
	w.mu.Unlock()
}

func (w *Workspace) writeTemplate(tname, dst string, data interface{}, replace map[string]string) error {
	b, err := tmplFS.ReadFile("templates/" + tname)
	if err != nil {
		return err
	}
	s := string(b)
	for k, v := range replace {
		s = strings.ReplaceAll(s, k, v)
	}
	if data != nil {
		t, err := template.New(tname).Parse(s)
		if err != nil {
			return err
		}
		var buf bytes.Buffer
		if err := t.Execute(&buf, data); err != nil {
			return err
		}
		s = buf.String()
	}
	if err := os.MkdirAll(filepath.Dir(dst), 0777); err != nil {
		return err
	}
	return os.WriteFile(dst, []byte(s), 0666)
}

// WriteSupport writes the tr and h packages (needed before gocc output can compile).
func (w *Workspace) WriteSupport() error {
	if err := w.writeTemplate("tr.go.txt", filepath.Join(w.Dir, "tr", "tr.go"), nil, nil); err != nil {
		return err
	}
	return w.writeTemplate("h.go.txt", filepath.Join(w.Dir, "h", "h.go"), nil, map[string]string{"MODPATH": ModPath})
}

// BuildDriver writes adapters for the registered grammars plus a main that imports
// them, and builds it. On failure the compiler output is returned.
func (w *Workspace) BuildDriver(drvName string, race bool) (bin string, out string, err error) {
	if err = w.WriteSupport(); err != nil {
		return
	}
	var imports []string
	w.mu.Lock()
	names := make([]string, 0, len(w.grams))
	for n := range w.grams {
		names = append(names, n)
	}
	w.mu.Unlock()
	for _, n := range names {
		gi := w.grams[n]
		data := map[string]interface{}{"Name": n, "Mod": ModPath, "Pkg": ModPath + "/" + n, "HasLexer": gi.HasLexer, "HasParser": gi.HasParser}
		if err = w.writeTemplate("adapter.go.txt", filepath.Join(w.Dir, "ad", "ad_"+n, "adapter.go"), data, nil); err != nil {
			return
		}
		if gi.HasParser {
			// observation aid added to the scratch copy only: prints the decoded tables
			if err = w.writeTemplate("verif_dump.go.txt", filepath.Join(w.Dir, n, "parser", "verif_dump.go"), nil, nil); err != nil {
				return
			}
		}
		imports = append(imports, fmt.Sprintf("\t_ \"%s/ad/ad_%s\"\n", ModPath, n))
	}
	mainSrc := "package main\n\nimport (\n\t\"" + ModPath + "/h\"\n" + strings.Join(imports, "") + ")\n\nfunc main() { h.Main() }\n"
	mdir := filepath.Join(w.Dir, "cmd", drvName)
	os.RemoveAll(mdir)
	if err = os.MkdirAll(mdir, 0777); err != nil {
		return
	}
	if err = os.WriteFile(filepath.Join(mdir, "main.go"), []byte(mainSrc), 0666); err != nil {
		return
	}
	bin = filepath.Join(w.Dir, "bin", drvName)
	args := []string{"build"}
	if race {
		args = append(args, "-race")
	}
	args = append(args, "-o", bin, "./cmd/"+drvName)
	b, e := goOutput(w.Dir, args...)
	return bin, string(b), e
}

// GoBuild runs `go build` (or vet) on package patterns inside the scratch module.
func (w *Workspace) GoBuild(patterns ...string) (string, error) {
	args := append([]string{"build"}, patterns...)
	b, e := goOutput(w.Dir, args...)
	return string(b), e
}

// RunDriver feeds cases (any JSON-marshalable values) to a driver binary and decodes one
// result line per case through decode.
func (w *Workspace) RunDriver(bin string, cases []interface{}, workers int, env []string, wall time.Duration, decode func(line []byte) error) (stderr string, timedOut bool, err error) {
	cf, err := os.CreateTemp(w.Dir, "cases-*.jsonl")
	if err != nil {
		return "", false, err
	}
	bw := bufio.NewWriterSize(cf, 1<<20)
	enc := json.NewEncoder(bw)
	for _, c := range cases {
		if err = enc.Encode(c); err != nil {
			return "", false, err
		}
	}
	bw.Flush()
	cf.Close()
	defer os.Remove(cf.Name())
	rf := cf.Name() + ".out"
	defer os.Remove(rf)
	if wall == 0 {
		wall = 20 * time.Minute
	}
	ctx, cancel := context.WithTimeout(context.Background(), wall)
	defer cancel()
	cmd := exec.CommandContext(ctx, bin, cf.Name(), rf, fmt.Sprint(workers))
	cmd.Dir = w.Dir
	cmd.Env = append(os.Environ(), env...)
	var se bytes.Buffer
	cmd.Stderr = &se
	cmd.Stdout = &se
	e := cmd.Run()
	if ctx.Err() == context.DeadlineExceeded {
		return se.String(), true, fmt.Errorf("driver watchdog fired")
	}
	if e != nil {
		if ee, ok := e.(*exec.ExitError); !ok || ee.ExitCode() != 3 {
			return se.String(), false, fmt.Errorf("driver failed: %v", e)
		}
		// exit 3: the CPU watchdog stopped the driver at a hanging case; partial results are on disk
	}
	f, err := os.Open(rf)
	if err != nil {
		return se.String(), false, err
	}
	defer f.Close()
	sc := bufio.NewScanner(f)
	sc.Buffer(make([]byte, 1<<20), 1<<28)
	for sc.Scan() {
		if err := decode(sc.Bytes()); err != nil {
			return se.String(), false, err
		}
	}
	return se.String(), false, sc.Err()
}

// HookStats sums the hook log lines written by the gocc runs of this workspace.
type HookStats struct {
	Runs         int
	MaxSteps     map[string]int64
	ClassesCalls int64
	ClassesTotal int64
	ClassesMax   int64
}

func (w *Workspace) HookStats() HookStats {
	hs := HookStats{MaxSteps: map[string]int64{}}
	f, err := os.Open(w.HookLog)
	if err != nil {
		return hs
	}
	defer f.Close()
	sc := bufio.NewScanner(f)
	sc.Buffer(make([]byte, 1<<16), 1<<24)
	for sc.Scan() {
		var l struct {
			Steps        map[string]int64 `json:"steps"`
			ClassesCalls int64            `json:"classes_calls"`
			ClassesTotal int64            `json:"classes_total"`
			ClassesMax   int64            `json:"classes_max"`
		}
		if json.Unmarshal(sc.Bytes(), &l) != nil {
			continue
		}
		hs.Runs++
		for k, v := range l.Steps {
			if v > hs.MaxSteps[k] {
				hs.MaxSteps[k] = v
			}
		}
		hs.ClassesCalls += l.ClassesCalls
		hs.ClassesTotal += l.ClassesTotal
		if l.ClassesMax > hs.ClassesMax {
			hs.ClassesMax = l.ClassesMax
		}
	}
	return hs
}

// BuildInproc builds one of the verifx module's in-process probes (cmd/<name>) against the
// tree in RepoDir: a temporary go.mod with the replace directive pointing there is used, so
// the probe always follows the working tree under test.
func (w *Workspace) BuildInproc(verifRoot, name string) (string, error) {
	mod := "module github.com/goccmack/gocc/verifx\n\ngo 1.24\n\nrequire github.com/goccmack/gocc v0.0.0\n\nreplace github.com/goccmack/gocc => " + RepoDir + "\n"
	modFile := filepath.Join(w.Dir, "inproc.mod")
	if err := os.WriteFile(modFile, []byte(mod), 0666); err != nil {
		return "", err
	}
	if sum, err := os.ReadFile(filepath.Join(RepoDir, "go.sum")); err == nil {
		os.WriteFile(filepath.Join(w.Dir, "inproc.sum"), sum, 0666)
	}
	bin := filepath.Join(w.Dir, "bin", name)
	if out, err := goOutput(verifRoot, "build", "-modfile="+modFile, "-tags", "verif", "-o", bin, "./cmd/"+name); err != nil {
		return "", fmt.Errorf("building %s failed: %v\n%s", name, err, out)
	}
	return bin, nil
}

// WriteTemplate instantiates one embedded template (plain string replacement) at dst.
func (w *Workspace) WriteTemplate(tname, dst string, replace map[string]string) error {
	return w.writeTemplate(tname, dst, nil, replace)
}

// GoBuildIn runs `go build -o out pkg` in a sub directory of the workspace.
func (w *Workspace) GoBuildIn(sub, out, pkg string) (string, error) {
	b, e := goOutput(filepath.Join(w.Dir, sub), "build", "-o", out, pkg)
	return string(b), e
}
