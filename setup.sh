#!/bin/bash
# MANIFEST.setup_cmd: build the orchestrator offline and warm the Go build cache.
set -e
. "$(dirname "$0")/env.sh"
cd "$VERIF_ROOT"
cp /repo/go.sum "$VERIF_ROOT/go.sum" 2>/dev/null || true
mkdir -p bin evidence replays
"$VGO" build -o bin/vcheck ./cmd/vcheck
# warm: std with and without -race, and the real gocc with hooks on
( cd /repo && "$VGO" build -tags verif -o /dev/null . )
"$VGO" build -race -o /dev/null ./cmd/vcheck >/dev/null 2>&1 || true
# warm the separate build cache used for scratch modules (generated code): standard library, plain and -race
SC="${VERIF_GOCACHE:-${VERIF_SCRATCH:-${TMPDIR:-/tmp}}/vgocc-gocache}"
mkdir -p "$SC"
GOCACHE="$SC" "$VGO" build std >/dev/null 2>&1 || true
GOCACHE="$SC" "$VGO" build -race std >/dev/null 2>&1 || true
echo "setup ok: $("$VGO" version)"
